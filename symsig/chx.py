"""CrossHair tier: run `crosshair check --report_all` on a contract module that imports the real sigpy functions
and classify the per-condition verdicts.  Each contract function f has a reachability twin f__twin (a deliberately
false post-condition) that must be refuted - otherwise the contract may be vacuous."""
import os
import re
import subprocess
import sys
import time

ROOT = os.path.dirname(os.path.dirname(os.path.abspath(__file__)))


def run_module(relpath, per_condition_timeout=30, per_path_timeout=None, wall=900):
    """returns dict: function name -> (verdict, message); verdict in confirmed / refuted / unknown"""
    path = os.path.join(ROOT, relpath)
    env = dict(os.environ)
    env["PYTHONPATH"] = ROOT + os.pathsep + env.get("PYTHONPATH", "")
    env["NUMBA_DISABLE_JIT"] = "1"
    cmd = [os.path.join(os.path.dirname(sys.executable), "crosshair"), "check", "--report_all",
           "--per_condition_timeout", str(per_condition_timeout)]
    if per_path_timeout:
        cmd += ["--per_path_timeout", str(per_path_timeout)]
    cmd.append(path)
    t = time.time()
    try:
        r = subprocess.run(cmd, cwd=ROOT, env=env, capture_output=True, text=True, timeout=wall)
        out = r.stdout + r.stderr
    except subprocess.TimeoutExpired as e:
        out = (e.stdout or b"").decode() if isinstance(e.stdout, bytes) else (e.stdout or "")
        out += "\nTIMEOUT"
    # map line numbers to function names
    with open(path) as f:
        src = f.read().splitlines()
    defs = []
    for i, line in enumerate(src, 1):
        m = re.match(r"def (\w+)\(", line)
        if m:
            defs.append((i, m.group(1)))

    def fn_at(line):
        name = None
        for ln, nm in defs:
            if ln <= line:
                name = nm
        return name
    res = {}
    for line in out.splitlines():
        m = re.match(r".*?:(\d+): (info|error): (.*)", line)
        if not m:
            continue
        fn = fn_at(int(m.group(1)))
        kind, msg = m.group(2), m.group(3)
        if fn is None:
            continue
        if kind == "info" and msg.startswith("Confirmed over all paths"):
            v = "confirmed"
        elif kind == "error":
            v = "refuted"
        else:
            v = "unknown"
        # a function may have several conditions: refuted dominates, then unknown
        old = res.get(fn)
        rank = {"refuted": 2, "unknown": 1, "confirmed": 0}
        if old is None or rank[v] > rank[old[0]]:
            res[fn] = (v, msg[:300])
    return res, out[-3000:], time.time() - t


def evaluate(relpath, expect_refuted=(), **kw):
    """contracts must be confirmed, twins (and names in expect_refuted) must be refuted.
    returns (violations, inconclusive, summary, samples)"""
    res, raw, dt = run_module(relpath, **kw)
    viol, inc, samples = [], [], []
    ncontract = 0
    for fn, (v, msg) in sorted(res.items()):
        twin = fn.endswith("__twin") or fn in expect_refuted
        if twin:
            if v != "refuted":
                inc.append(("crosshair:" + relpath + ":" + fn, "reachability twin was not refuted (%s): contract may be vacuous" % v))
            continue
        ncontract += 1
        samples.append({"contract": fn, "verdict": v, "message": msg})
        if v == "refuted":
            viol.append(("crosshair:" + relpath + ":" + fn, "contract", "", msg))
        elif v == "unknown":
            inc.append(("crosshair:" + relpath + ":" + fn, "CrossHair: " + msg))
    if not res:
        inc.append(("crosshair:" + relpath, "no verdicts parsed: " + raw[-500:]))
    return viol, inc, {"contracts": ncontract, "seconds": round(dt, 1), "verdicts": {k: v[0] for k, v in res.items()}}, samples
