"""Exact algebra used as *preprocessing* for solver queries.

* Poly  - sparse multivariate polynomials over Q (canonical: dict monomial -> Fraction)
* Rat   - rational functions  num / prod(atom^k)  (atoms: polynomials assumed non-zero on the
          path; cancellation by trial division by the atoms)
* Field - cyclotomic field Q(zeta_N): structure constants, conjugation, exact sqrt(int)

Every obligation is still decided by an SMT solver (symsig.solve); this layer only keeps the
terms the real code builds small enough to hand over.
"""
from fractions import Fraction
import z3

_names = []
_ids = {}
_zvars = []


def var_id(name):
    i = _ids.get(name)
    if i is None:
        i = len(_names)
        _ids[name] = i
        _names.append(name)
        _zvars.append(z3.Real(name))
    return i


def var_name(i):
    return _names[i]


def zvar(i):
    return _zvars[i]


def _mmul(a, b):
    if not a:
        return b
    if not b:
        return a
    d = dict(a)
    for v, k in b:
        d[v] = d.get(v, 0) + k
    return tuple(sorted(d.items()))


def _mdiv(a, b):
    if not b:
        return a
    d = dict(a)
    for v, k in b:
        e = d.get(v, 0) - k
        if e < 0:
            return None
        if e:
            d[v] = e
        else:
            del d[v]
    return tuple(sorted(d.items()))


def _lexkey(m):
    # graded lex on (var index) - total order compatible with multiplication
    return (sum(k for _, k in m), tuple((-v, k) for v, k in m))


def _ordkey(m):
    # a true monomial order: graded, then lexicographic on exponent vector (low var index first)
    deg = 0
    for _, k in m:
        deg += k
    return (deg, _expvec(m))


def _expvec(m):
    # sparse exponent vector encoded so that tuple comparison = lex comparison with var 0 most
    # significant: represent as tuple of (−var, exp) does not give a monomial order; use dense.
    if not m:
        return ()
    top = m[-1][0]
    d = [0] * (top + 1)
    for v, k in m:
        d[v] = k
    return tuple(d)


def _mono_gt(a, b):
    """graded-lex comparison (a monomial order)."""
    da = sum(k for _, k in a)
    db = sum(k for _, k in b)
    if da != db:
        return da > db
    ea, eb = _expvec(a), _expvec(b)
    n = max(len(ea), len(eb))
    ea = ea + (0,) * (n - len(ea))
    eb = eb + (0,) * (n - len(eb))
    return ea > eb


class _MKey:
    __slots__ = ("m", "d", "e")

    def __init__(self, m, nv):
        self.m = m
        self.d = sum(k for _, k in m)
        e = [0] * nv
        for v, k in m:
            e[v] = k
        self.e = e

    def __lt__(self, o):
        return (self.d, self.e) < (o.d, o.e)


class Poly:
    __slots__ = ("t", "_h", "_z")

    def __init__(self, t):
        self.t = t
        self._h = None
        self._z = None

    @staticmethod
    def const(c):
        c = Fraction(c)
        return Poly({(): c} if c else {})

    @staticmethod
    def var(name):
        return Poly({((var_id(name), 1),): Fraction(1)})

    def is_zero(self):
        return not self.t

    def is_const(self):
        return not self.t or (len(self.t) == 1 and () in self.t)

    def cval(self):
        return self.t.get((), Fraction(0))

    def vars(self):
        s = set()
        for m in self.t:
            for v, _ in m:
                s.add(v)
        return s

    def degree(self):
        return max((sum(k for _, k in m) for m in self.t), default=0)

    def __add__(self, o):
        if not o.t:
            return self
        if not self.t:
            return o
        a, b = (self.t, o.t) if len(self.t) >= len(o.t) else (o.t, self.t)
        r = dict(a)
        for m, c in b.items():
            v = r.get(m)
            if v is None:
                r[m] = c
            else:
                v = v + c
                if v:
                    r[m] = v
                else:
                    del r[m]
        return Poly(r)

    def __neg__(self):
        return Poly({m: -c for m, c in self.t.items()})

    def __sub__(self, o):
        if not o.t:
            return self
        return self + (-o)

    def scale(self, c):
        if not c:
            return P0
        if c == 1:
            return self
        return Poly({m: v * c for m, v in self.t.items()})

    def __mul__(self, o):
        if not self.t or not o.t:
            return P0
        if len(self.t) == 1 and () in self.t:
            return o.scale(self.t[()])
        if len(o.t) == 1 and () in o.t:
            return self.scale(o.t[()])
        r = {}
        for m1, c1 in self.t.items():
            for m2, c2 in o.t.items():
                m = _mmul(m1, m2)
                c = c1 * c2
                v = r.get(m)
                if v is None:
                    r[m] = c
                else:
                    v += c
                    if v:
                        r[m] = v
                    else:
                        del r[m]
        return Poly(r)

    def __pow__(self, k):
        r = P1
        for _ in range(k):
            r = r * self
        return r

    def key(self):
        if self._h is None:
            self._h = frozenset(self.t.items())
        return self._h

    def __eq__(self, o):
        return isinstance(o, Poly) and self.t == o.t

    def __hash__(self):
        return hash(self.key())

    def z3(self):
        if self._z is None:
            terms = []
            for m, c in sorted(self.t.items()):
                fs = []
                for v, k in m:
                    fs.extend([_zvars[v]] * k)
                if fs:
                    p = fs[0]
                    for f in fs[1:]:
                        p = p * f
                    e = p if c == 1 else z3.Q(c.numerator, c.denominator) * p
                else:
                    e = z3.Q(c.numerator, c.denominator)
                terms.append(e)
            if not terms:
                self._z = z3.RealVal(0)
            elif len(terms) == 1:
                self._z = terms[0]
            else:
                self._z = z3.Sum(terms)
        return self._z

    def eval(self, env):
        """numeric/Fraction evaluation; env: var id -> number"""
        s = 0
        for m, c in self.t.items():
            p = c
            for v, k in m:
                p = p * env[v] ** k
            s = s + p
        return s

    def smt2(self):
        if not self.t:
            return "0.0"
        terms = []
        for m, c in sorted(self.t.items()):
            fs = []
            for v, k in m:
                fs.extend(["|%s|" % _names[v]] * k)
            cs = _q2smt(c)
            if fs:
                if c != 1:
                    fs = [cs] + fs
                terms.append(fs[0] if len(fs) == 1 else "(* %s)" % " ".join(fs))
            else:
                terms.append(cs)
        return terms[0] if len(terms) == 1 else "(+ %s)" % " ".join(terms)

    def __repr__(self):
        def mono(m):
            return "*".join(_names[v] + ("^%d" % k if k > 1 else "") for v, k in m)
        return " + ".join(("%s*%s" % (c, mono(m)) if m else str(c)) for m, c in sorted(self.t.items())) or "0"


def _q2smt(c):
    c = Fraction(c)
    n, d = c.numerator, c.denominator
    s = "%d.0" % abs(n) if d == 1 else "(/ %d.0 %d.0)" % (abs(n), d)
    return "(- %s)" % s if n < 0 else s


P0 = Poly({})
P1 = Poly.const(1)


def exact_div(p, a):
    """p / a if a divides p exactly, else None"""
    if a.is_const():
        return p.scale(1 / a.cval())
    if not p.t:
        return P0
    nv = len(_names)
    lt_a = max(a.t, key=lambda m: _MKey(m, nv))
    c_a = a.t[lt_a]
    rest = [(m, c) for m, c in a.t.items() if m != lt_a]
    r = dict(p.t)
    q = {}
    guard = 0
    while r:
        guard += 1
        if guard > 200000:
            return None
        lt_r = max(r, key=lambda m: _MKey(m, nv))
        m = _mdiv(lt_r, lt_a)
        if m is None:
            return None
        c = r.pop(lt_r) / c_a
        q[m] = c
        for ma, ca in rest:
            mm = _mmul(m, ma)
            v = r.get(mm, 0) - c * ca
            if v:
                r[mm] = v
            else:
                r.pop(mm, None)
    return Poly(q)


class Rat:
    """num / prod(atom^k).  atoms are Polys recorded as non-zero by the path context."""
    __slots__ = ("n", "d")

    def __init__(self, n, d=None):
        self.n = n
        self.d = d or {}

    @staticmethod
    def const(c):
        return Rat(Poly.const(c))

    @staticmethod
    def var(name):
        return Rat(Poly.var(name))

    def dpoly(self):
        p = P1
        for a, k in self.d.items():
            for _ in range(k):
                p = p * a
        return p

    def odd_dpoly(self):
        """product of atoms with odd exponent: sign(self) = sign(n * odd_dpoly)"""
        p = P1
        for a, k in self.d.items():
            if k % 2:
                p = p * a
        return p

    def sign_poly(self):
        return self.n * self.odd_dpoly() if self.d else self.n

    @staticmethod
    def _missing(L, d):
        p = P1
        for a, k in L.items():
            for _ in range(k - d.get(a, 0)):
                p = p * a
        return p

    def _norm(self):
        if not self.n.t:
            return R0
        if not self.d:
            return self
        n = self.n
        d = dict(self.d)
        for a in list(d):
            while d.get(a, 0) > 0:
                if len(a.t) > len(n.t) and len(a.t) > 1 and n.degree() < a.degree():
                    break
                q = exact_div(n, a)
                if q is None:
                    break
                n = q
                d[a] -= 1
            if d.get(a) == 0:
                del d[a]
        return Rat(n, d)

    def __add__(self, o):
        if not o.n.t:
            return self
        if not self.n.t:
            return o
        if not self.d and not o.d:
            return Rat(self.n + o.n)
        if self.d == o.d:
            return Rat(self.n + o.n, self.d)._norm()
        L = dict(self.d)
        for a, k in o.d.items():
            if L.get(a, 0) < k:
                L[a] = k
        return Rat(self.n * Rat._missing(L, self.d) + o.n * Rat._missing(L, o.d), L)._norm()

    def __neg__(self):
        return Rat(-self.n, self.d)

    def __sub__(self, o):
        if not o.n.t:
            return self
        return self + (-o)

    def __mul__(self, o):
        if not self.n.t or not o.n.t:
            return R0
        if not o.d and not self.d:
            return Rat(self.n * o.n)
        if not o.d:
            return Rat(self.n * o.n, self.d)._norm()
        if not self.d:
            return Rat(self.n * o.n, o.d)._norm()
        d = dict(self.d)
        for a, k in o.d.items():
            d[a] = d.get(a, 0) + k
        return Rat(self.n * o.n, d)._norm()

    def scale(self, c):
        if not c:
            return R0
        return Rat(self.n.scale(c), self.d)

    def inv_parts(self):
        """(Rat 1/self, atom or None): caller must record atom != 0"""
        if self.n.is_const():
            return Rat(self.dpoly().scale(1 / self.n.cval())), None
        nv = len(_names)
        lead = self.n.t[max(self.n.t, key=lambda m: _MKey(m, nv))]
        atom = self.n.scale(1 / lead)
        return Rat(self.dpoly().scale(1 / lead), {atom: 1}), atom

    def is_zero(self):
        return not self.n.t

    def is_const(self):
        return self.n.is_const() and not self.d

    def cval(self):
        return self.n.cval()

    def key(self):
        return (self.n.key(), frozenset((a.key(), k) for a, k in self.d.items()))

    def vars(self):
        s = self.n.vars()
        for a in self.d:
            s |= a.vars()
        return s

    def eval(self, env):
        v = self.n.eval(env)
        for a, k in self.d.items():
            v = v / a.eval(env) ** k
        return v

    def __repr__(self):
        if not self.d:
            return repr(self.n)
        return "(%r)/(%s)" % (self.n, "*".join("(%r)^%d" % (a, k) for a, k in self.d.items()))


R0 = Rat(P0)
R1 = Rat(P1)


# --------------------------------------------------------------------------- cyclotomic field

def _polydiv_exact(num, den):
    num = list(num)
    out = [0] * (len(num) - len(den) + 1)
    for i in range(len(out) - 1, -1, -1):
        c = num[i + len(den) - 1] // den[-1]
        out[i] = c
        for j, d in enumerate(den):
            num[i + j] -= c * d
    assert not any(num), "inexact"
    return out


_cyc_cache = {}


def cyclotomic(n):
    if n in _cyc_cache:
        return _cyc_cache[n]
    p = [-1] + [0] * (n - 1) + [1]
    for d in range(1, n):
        if n % d == 0:
            p = _polydiv_exact(p, cyclotomic(d))
    _cyc_cache[n] = p
    return p


class Field:
    """Q(zeta_N), N divisible by 4, power basis 1, zeta, ..., zeta^(deg-1)."""

    def __init__(self, N):
        assert N % 4 == 0
        self.N = N
        self.phi = cyclotomic(N)
        self.deg = len(self.phi) - 1
        self.pow = []
        v = [Fraction(1)] + [Fraction(0)] * (self.deg - 1)
        for _ in range(N):
            self.pow.append(tuple(v))
            v = self._mulx(v)
        assert tuple(v) == self.pow[0]
        d = self.deg
        # sparse structure constants
        self.T = [[[(k, c) for k, c in enumerate(self.pow[(i + j) % N]) if c] for j in range(d)] for i in range(d)]
        self.C = [[(k, c) for k, c in enumerate(self.pow[(N - i) % N]) if c] for i in range(d)]
        self.I = self.zeta(1, 4)
        # real/imag part extraction: re(z) = (z + conj z)/2 needs only conj; for N == 4 trivial
        self._sq = {}

    def _mulx(self, v):
        d = self.deg
        top = v[-1]
        w = [Fraction(0)] + list(v[:-1])
        if top:
            for i in range(d):
                w[i] -= top * self.phi[i]
        return w

    def zeta(self, num, den):
        assert self.N % den == 0, (self.N, den)
        return self.pow[(num * (self.N // den)) % self.N]

    def mulc(self, a, b):
        """product of two constant coordinate vectors (Fractions)"""
        d = self.deg
        out = [Fraction(0)] * d
        for i in range(d):
            if not a[i]:
                continue
            for j in range(d):
                if not b[j]:
                    continue
                ab = a[i] * b[j]
                for k, c in self.T[i][j]:
                    out[k] += ab * c
        return tuple(out)

    def sqrt_int(self, n):
        if n in self._sq:
            return self._sq[n]
        s, m = 1, n
        p = 2
        while p * p <= m:
            while m % (p * p) == 0:
                m //= p * p
                s *= p
            p += 1
        res = tuple([Fraction(s)] + [Fraction(0)] * (self.deg - 1))
        p = 2
        mm = m
        while mm > 1:
            if mm % p == 0:
                mm //= p
                res = self.mulc(res, self._sqrt_prime(p))
            else:
                p += 1
        # sanity: res^2 == n
        sq = self.mulc(res, res)
        assert sq[0] == n and not any(sq[1:]), (n, sq)
        self._sq[n] = res
        return res

    def _sqrt_prime(self, p):
        if p == 2:
            a, b = self.zeta(1, 8), self.zeta(7, 8)
            return tuple(x + y for x, y in zip(a, b))
        g = [Fraction(0)] * self.deg
        for k in range(p):
            g = [x + y for x, y in zip(g, self.zeta(k * k % p, p))]
        if p % 4 == 3:
            g = self.mulc(tuple(g), self.zeta(3, 4))
        # Gauss sum sign: g = +sqrt(p) (p = 1 mod 4) / i sqrt(p) (p = 3 mod 4); check positivity numerically
        val = self.embed(g)
        assert abs(val.imag) < 1e-9
        if val.real < 0:
            g = [-x for x in g]
        return tuple(g)

    def embed(self, v):
        import cmath
        return sum(complex(float(c)) * cmath.exp(2j * cmath.pi * k / self.N) for k, c in enumerate(v))


def required_N(lengths, ortho=True):
    """smallest N (multiple of 4) such that Q(zeta_N) holds all n-th roots of unity and sqrt(n)"""
    from math import gcd
    N = 4
    for n in lengths:
        n = int(n)
        if n <= 1:
            continue
        N = N * n // gcd(N, n)
        if ortho:
            # squarefree part
            m, p = n, 2
            while p * p <= m:
                while m % (p * p) == 0:
                    m //= p * p
                p += 1
            p = 2
            while m > 1:
                if m % p == 0:
                    m //= p
                    need = 8 if p == 2 else p
                    N = N * need // gcd(N, need)
                else:
                    p += 1
    return N
