"""Generic driver: configurations -> symbolic paths -> obligations -> z3 -> replay -> evidence.

A property module (props/cNN.py) provides
    PROPERTY, TITLE, FUNCTIONS (list of encoded functions), BOUNDS (dict), ASSUMPTIONS (list)
    configs(tier, seed)  -> list of JSON-able cfg dicts, each with "id" (unique, readable),
                            "h" (harness name) and optional "field", "max_paths"
    HARNESSES = {name: fn(cfg, V) -> list[(obligation_name, B)]}
Exit codes: 0 held (or only known findings) / 1 VIOLATION / 2 inconclusive / 3 harness error.
"""
import hashlib
import importlib
import json
import os
import random
import signal
import subprocess
import sys
import time
import traceback
from fractions import Fraction

ROOT = os.path.dirname(os.path.dirname(os.path.abspath(__file__)))
REPLAY_DIR = os.environ.get("VERIF_REPLAY_DIR") or os.path.join(ROOT, "replays")
EVID_DIR = os.environ.get("VERIF_EVIDENCE_DIR") or os.path.join(ROOT, "evidence")


class ConfigTimeout(BaseException):
    pass


def _alarm(signum, frame):
    raise ConfigTimeout()


def _envjson(env):
    return {k: "%d/%d" % (Fraction(v).numerator, Fraction(v).denominator) for k, v in (env or {}).items()}


def run_config(args):
    """worker: explore one configuration symbolically; returns a JSON-able dict"""
    modname, cfg, budget_s = args
    from . import npenv
    npenv.install()
    from . import scalar as S, solve, oracle as O
    mod = importlib.import_module(modname)
    out = {"id": cfg["id"], "h": cfg["h"], "paths": 0, "obligations": 0, "unsat": 0, "sat": 0,
           "unknown": 0, "trivial": 0, "failures": [], "inconclusive": [], "solver_s": 0.0,
           "samples": [], "hashes": [], "smt": [], "aux": 0, "assumed": [], "exc_paths": 0, "unknown_branches": 0}
    t0 = time.time()
    S.set_field(cfg.get("field", 4))
    fn = mod.HARNESSES[cfg["h"]]
    signal.signal(signal.SIGALRM, _alarm)
    signal.alarm(int(budget_s))
    triv0 = solve.STATS["trivial"]
    try:
        for p in S.explore(lambda: fn(cfg, O.SymValues()), max_paths=cfg.get("max_paths", 400)):
            out["paths"] += 1
            ctx = p.ctx
            out["aux"] += ctx.naux
            out["unknown_branches"] += ctx.unknown_branches
            for w, d in ctx.defined:
                if len(out["assumed"]) < 12 and [w, d] not in out["assumed"]:
                    out["assumed"].append([w, d])
            if p.exc is not None:
                if isinstance(p.exc, S.Abort):
                    out["paths"] -= 1
                    continue
                if isinstance(p.exc, S.Unsupported):
                    out["inconclusive"].append({"why": "unsupported: %s" % p.exc, "decisions": ctx.decisions})
                    continue
                # exception of the code under test on a feasible path
                out["exc_paths"] += 1
                env = None
                if ctx.model is None:
                    if ctx._check() == "unsat":      # (lazily added definedness assumptions made the path infeasible)
                        out["paths"] -= 1
                        out["exc_paths"] -= 1
                        continue
                if ctx.model is not None:
                    env = dict(ctx.model)
                tb = traceback.format_exception(type(p.exc), p.exc, p.exc.__traceback__)
                out["failures"].append({"name": "exception:" + type(p.exc).__name__, "verdict": "sat",
                                        "env": _envjson(env), "detail": "".join(tb)[-1500:],
                                        "decisions": ctx.decisions})
                continue
            for name, obl in p.value:
                out["obligations"] += 1
                if getattr(mod, "REDUCE", False):
                    obl = S.reduce_b(obl, ctx.rules)
                dec = solve.decide_relaxed if name.endswith("~") else solve.decide   # "~": tolerance obligation over box-bounded inputs
                cone = ctx.cone_pc(obl)      # goal-directed subset of the path condition: unsat there is sound
                used_pc = cone
                verdict, env, dt = dec(cone, obl)
                if verdict != "unsat" and len(cone) != len(ctx.pc):
                    pc = ctx.relevant_pc(obl)   # exact: only definitions of auxiliary variables nothing refers to are dropped
                    used_pc = pc
                    verdict, env, dt2 = dec(pc, obl)
                    dt += dt2
                if obl.k != "c" and verdict in ("unsat", "sat") and len(out["smt"]) < 2 and (out["obligations"] + len(cfg["id"])) % 3 == 0:
                    try:
                        script = solve.smt2_script(used_pc, obl)
                        if len(script) < 60000:
                            out["smt"].append({"cfg": cfg["id"], "obligation": name, "z3": verdict, "script": script})
                    except Exception:
                        pass
                out["solver_s"] += dt
                if obl.k != "c":
                    txt = obl.smt2()
                    out["hashes"].append(hashlib.md5(txt.encode()).hexdigest()[:12])
                    if len(out["samples"]) < 2:
                        out["samples"].append({"cfg": cfg["id"], "obligation": name, "verdict": verdict,
                                               "path_condition": [b.smt2()[:160] for b in ctx.pc[:4]],
                                               "negated_goal_smt2": "(assert (not %s))" % (txt[:600] + ("..." if len(txt) > 600 else ""))})
                if verdict == "unsat":
                    out["unsat"] += 1
                elif verdict == "sat":
                    out["sat"] += 1
                    rec = {"name": name, "verdict": "sat", "env": _envjson(env), "decisions": ctx.decisions, "detail": ""}
                    # z3 favours degenerate models (zeros, equal values) on which a real difference can vanish numerically:
                    # also ask for a generic one (all input variables non-zero, neighbours neither equal nor opposite) for the replay
                    try:
                        alt = _generic_model(ctx, obl, dec)
                        if alt:
                            rec["env_alt"] = _envjson(alt)
                    except Exception:
                        pass
                    out["failures"].append(rec)
                else:
                    out["unknown"] += 1
                    out["inconclusive"].append({"why": "solver unknown on %s" % name, "decisions": ctx.decisions})
    except S.PathBudget as e:
        out["inconclusive"].append({"why": "path budget: %s" % e})
    except ConfigTimeout:
        out["inconclusive"].append({"why": "wall budget %ss exceeded" % budget_s})
    except S.Unsupported as e:
        out["inconclusive"].append({"why": "unsupported: %s" % e})
    except Exception as e:   # harness bug
        out["inconclusive"].append({"why": "harness exception: %r" % e, "tb": traceback.format_exc()[-1500:], "harness_error": True})
    finally:
        signal.alarm(0)
    out["trivial"] = solve.STATS["trivial"] - triv0
    out["wall_s"] = time.time() - t0
    return out


def _generic_model(ctx, obl, dec):
    from . import scalar as S
    from . import algebra as A
    pc = ctx.relevant_pc(obl)
    aux = set()
    for vs in ctx.defgroups:
        aux |= vs
    vs = set(obl.vars())
    for b in pc:
        vs |= b.vars()
    names = sorted((A.var_name(v), v) for v in vs if v not in aux and "!" not in A.var_name(v))
    if not names or len(names) > 60:
        return None
    extra = []
    polys = [A.Poly({((v, 1),): 1}) for _, v in names]
    for p in polys:
        extra.append(S.B.cmp("!=", p))
    for p, q in zip(polys[:-1], polys[1:]):
        extra.append(S.B.cmp("!=", p - q))
        extra.append(S.B.cmp("!=", p + q))
    verdict, env, _ = dec(list(pc) + extra, obl)
    return env if verdict == "sat" else None


# ------------------------------------------------------------------ replay (float mode, clean process)

def replay_file(path):
    """run the harness of a recorded counterexample against the unpatched float code.
    prints REPRODUCED / NOT-REPRODUCED; exit 1 when reproduced."""
    with open(path) as f:
        rec = json.load(f)
    sys.path.insert(0, ROOT)
    from . import oracle as O
    mod = importlib.import_module(rec["module"])
    if "extra" in rec:
        return mod.replay_extra(rec)
    env = {k: Fraction(v) for k, v in rec["env"].items()}
    V = O.FloatValues(env, seed=rec.get("seed", 0))
    fn = mod.HARNESSES[rec["cfg"]["h"]]
    name = rec["obligation"]
    try:
        obls = fn(rec["cfg"], V)
    except Exception as e:
        if name == "exception:" + type(e).__name__ or name.startswith("exception:"):
            print("REPRODUCED property=%s cfg=%s: real code raised %r" % (rec["property"], rec["cfg"]["id"], e))
            return 1
        print("NOT-REPRODUCED (float run raised %r)" % (e,))
        traceback.print_exc()
        return 0
    if not V.ok:
        print("NOT-REPRODUCED (rounded model violates a precondition)")
        return 0
    bad = [n for n, b in obls if b.k == "c" and not b.a]
    if name in bad:
        print("REPRODUCED property=%s cfg=%s obligation=%s fails on the real float code" % (rec["property"], rec["cfg"]["id"], name))
        return 1
    if bad:
        # the input found by the solver makes the real code violate the property, although through another clause than the one the
        # symbolic run tripped over (e.g. the symbolic run hit an exception / an intermediate obligation): still a concrete violation
        print("REPRODUCED property=%s cfg=%s obligation=%s fails on the real float code (symbolic finding: %s)"
              % (rec["property"], rec["cfg"]["id"], bad[0], name))
        return 1
    if name.startswith("exception:"):
        print("NOT-REPRODUCED (no exception in float run)")
        return 0
    print("NOT-REPRODUCED (obligation %s holds numerically; failing: %s)" % (name, bad))
    return 0


def _replay_subprocess(path):
    env = dict(os.environ)
    env.pop("NUMBA_DISABLE_JIT", None)
    env["PYTHONPATH"] = (os.environ["VERIF_REPO"] + os.pathsep if os.environ.get("VERIF_REPO") else "") + ROOT
    r = subprocess.run([sys.executable, "-m", "symsig.runner", "--replay", path], cwd=ROOT, env=env,
                       capture_output=True, text=True, timeout=900)
    return r.returncode, (r.stdout + r.stderr)[-2000:]


# ------------------------------------------------------------------ known findings

def load_known(prop):
    p = os.path.join(ROOT, "known_findings.json")
    if not os.path.exists(p):
        return []
    with open(p) as f:
        data = json.load(f)
    return [e for e in data.get("findings", []) if e.get("property") == prop and e.get("status") == "known"]


def match_known(known, cfg_id, obligation):
    import re
    sig = "%s|%s" % (cfg_id, obligation)
    for e in known:
        if re.search(e["pattern"], sig):
            return e
    return None


# ------------------------------------------------------------------ main driver

def main_check(modname, tier, seed, extra=None):
    t0 = time.time()
    sys.path.insert(0, ROOT)
    os.environ.setdefault("NUMBA_DISABLE_JIT", "1")
    mod = importlib.import_module(modname)
    prop = mod.PROPERTY
    cfgs = mod.configs(tier, seed)
    ids = [c["id"] for c in cfgs]
    assert len(ids) == len(set(ids)), "duplicate cfg ids: %s" % [i for i in ids if ids.count(i) > 1][:5]
    budget = getattr(mod, "CONFIG_BUDGET_S", {"quick": 900, "thorough": 1800})[tier]
    nproc = int(os.environ.get("VERIF_JOBS", str(os.cpu_count() or 4)))
    import multiprocessing as mp
    ctx = mp.get_context("fork")
    results = []
    work = [(modname, c, budget) for c in cfgs]
    # longest-first helps the tail
    work.sort(key=lambda w: -w[1].get("cost", 1))
    with ctx.Pool(min(nproc, max(1, len(work))), maxtasksperchild=50) as pool:
        for r in pool.imap_unordered(run_config, work, chunksize=1):
            results.append(r)
    bycfg = {c["id"]: c for c in cfgs}
    known = load_known(prop)
    violations, known_hits, harness_errors, inconcl = [], {}, [], []
    os.makedirs(REPLAY_DIR, exist_ok=True)
    nreplay = 0
    for r in sorted(results, key=lambda r: r["id"]):
        for inc in r["inconclusive"]:
            inconcl.append((r["id"], inc["why"]))
            if inc.get("harness_error"):
                harness_errors.append((r["id"], inc["why"] + "\n" + inc.get("tb", "")))
        seen = set()
        for f in r["failures"]:
            if f["name"] in seen:
                continue     # one replay per (cfg, obligation)
            seen.add(f["name"])
            rec = {"property": prop, "module": modname, "cfg": bycfg[r["id"]], "obligation": f["name"],
                   "env": f["env"], "decisions": f["decisions"], "seed": seed, "detail": f.get("detail", "")}
            h = hashlib.md5((r["id"] + "|" + f["name"]).encode()).hexdigest()[:10]
            path = os.path.join(REPLAY_DIR, "%s_%s.json" % (prop, h))
            with open(path, "w") as fh:
                json.dump(rec, fh, indent=1)
            nreplay += 1
            rc, outp = _replay_subprocess(path)
            if rc == 0 and f.get("env_alt"):
                rec["env"] = f["env_alt"]
                rec["note"] = "generic model (the first model did not reproduce numerically)"
                with open(path, "w") as fh:
                    json.dump(rec, fh, indent=1)
                rc, outp = _replay_subprocess(path)
            if rc == 1:
                k = match_known(known, r["id"], f["name"])
                if k is not None:
                    known_hits.setdefault(k["pattern"], (k, []))[1].append(r["id"] + "|" + f["name"])
                else:
                    violations.append((r["id"], f["name"], path, outp.strip().splitlines()[-1] if outp.strip() else ""))
            elif rc == 0:
                harness_errors.append((r["id"], "solver model for %s did not reproduce on the float code: %s" % (f["name"], outp.strip()[-300:])))
            else:
                harness_errors.append((r["id"], "replay crashed rc=%s: %s" % (rc, outp[-400:])))
    # optional extra phases of the module (CrossHair contracts, canaries, cvc5 cross-check)
    extra_info = {}
    if hasattr(mod, "extra_phases"):
        extra_info = mod.extra_phases(tier, seed, results) or {}
        for v in extra_info.get("violations", []):
            k = match_known(known, v[0], v[1])
            if k is not None:
                known_hits.setdefault(k["pattern"], (k, []))[1].append(v[0] + "|" + v[1])
            else:
                violations.append(v)
        harness_errors.extend(extra_info.get("harness_errors", []))
        inconcl.extend(extra_info.get("inconclusive", []))
    # second solver: a seeded sample of the decided obligations is re-decided by cvc5 from the exported SMT-LIB text
    second = _second_solver(results, tier, seed)
    extra_info["second_solver"] = second["summary"]
    harness_errors.extend(second["errors"])
    wall = time.time() - t0
    write_evidence(mod, tier, seed, cfgs, results, violations, known_hits, inconcl, harness_errors, wall, extra_info, nreplay)
    for pat, (k, hits) in sorted(known_hits.items()):
        print("KNOWN-FINDING: property=%s %s (%d occurrences, e.g. %s)" % (prop, k["description"], len(hits), hits[0]))
    tot = {k: sum(r[k] for r in results) for k in ("paths", "obligations", "unsat", "sat", "unknown", "trivial")}
    print("%s %s: %d configurations, %d paths, %d obligations: %d unsat (%d constant-folded), %d sat, %d unknown; solver %.1fs; wall %.1fs"
          % (prop, tier, len(cfgs), tot["paths"], tot["obligations"], tot["unsat"], tot["trivial"], tot["sat"], tot["unknown"],
             sum(r["solver_s"] for r in results), wall))
    slow = sorted(results, key=lambda r: -r.get("wall_s", 0))[:4]
    print("  slowest: " + "; ".join("%s %.1fs (%d paths)" % (r["id"][:70], r.get("wall_s", 0), r["paths"]) for r in slow))
    for k, v in sorted(extra_info.get("summary", {}).items()):
        print("  %s: %s" % (k, v))
    if violations:
        for cid, name, path, msg in violations:
            print("VIOLATION property=%s replay=%s  [%s | %s] %s" % (prop, path, cid, name, msg))
        return 1
    if harness_errors:
        for cid, why in harness_errors[:20]:
            print("HARNESS-ERROR %s: %s" % (cid, why))
        return 3
    if inconcl:
        for cid, why in inconcl[:20]:
            print("INCONCLUSIVE %s: %s" % (cid, why))
        return 2
    return 0


def _second_solver(results, tier, seed):
    from . import solve
    pool = []
    for r in sorted(results, key=lambda r: r["id"]):
        pool.extend(r.get("smt", []))
    rnd = random.Random(seed * 31 + 7)
    rnd.shuffle(pool)
    k = 10 if tier == "quick" else 60
    budget = 60 if tier == "quick" else 600
    t0 = time.time()
    agree = unknown = 0
    errors = []
    checked = 0
    for item in pool[:k]:
        if time.time() - t0 > budget:
            break
        v = solve.cvc5_decide(item["script"], timeout_ms=8000 if tier == "quick" else 20000)
        checked += 1
        if v in ("sat", "unsat"):
            if v == item["z3"]:
                agree += 1
            else:
                errors.append((item["cfg"], "solver disagreement on %s: z3 %s, cvc5 %s" % (item["obligation"], item["z3"], v)))
        else:
            unknown += 1
    return {"summary": {"solver": "cvc5 (wheel)", "exported_obligations_available": len(pool), "rechecked": checked, "agree": agree,
                        "cvc5_unknown_or_timeout": unknown, "disagree": len(errors), "seconds": round(time.time() - t0, 1)}, "errors": errors}


def write_evidence(mod, tier, seed, cfgs, results, violations, known_hits, inconcl, harness_errors, wall, extra, nreplay):
    from . import npenv
    os.makedirs(EVID_DIR, exist_ok=True)
    hashes = set()
    for r in results:
        hashes.update(r["hashes"])
    samples = []
    for r in sorted(results, key=lambda r: r["id"]):
        samples.extend(r["samples"])
    rnd = random.Random(seed)
    rnd.shuffle(samples)
    assumed = []
    for r in results:
        for a in r["assumed"]:
            if a not in assumed and len(assumed) < 25:
                assumed.append(a)
    tot = lambda k: sum(r[k] for r in results)   # noqa
    cov = {
        "explanation": ("Bounded symbolic execution of the real sigpy functions from /repo's working tree on NumPy object "
                        "arrays of exact symbolic scalars; every feasible path's obligations are decided by z3 (unsat of the "
                        "negation = holds for all values of the symbolic inputs inside the stated structural bounds); "
                        "sat models are replayed against the unpatched float code before being reported. "
                        + getattr(mod, "EXPLANATION", "")),
        "functions_encoded": getattr(mod, "FUNCTIONS", []),
        "bounds": getattr(mod, "BOUNDS", {}).get(tier, getattr(mod, "BOUNDS", {})),
        "outside_bounds": getattr(mod, "OUTSIDE", []),
        "configurations": len(cfgs),
        "configuration_ids_sample": [c["id"] for c in cfgs[:: max(1, len(cfgs) // 25)]][:30],
        "paths": tot("paths"),
        "exception_paths": tot("exc_paths"),
        "obligations": tot("obligations"),
        "discharged": tot("unsat"),
        "discharged_constant_folded": tot("trivial"),
        "sat": tot("sat"),
        "unknown": tot("unknown"),
        "branch_queries_unknown": tot("unknown_branches"),
        "aux_variables": tot("aux"),
        "solver": "z3 %s (rlimit-bounded)" % _z3ver(),
        "solver_time_s": round(sum(r["solver_s"] for r in results), 3),
        "evaluations": tot("obligations") + extra.get("evaluations", 0),
        "distinct_nontrivial": len(hashes) + extra.get("distinct_nontrivial", 0),
        "rule": ("one evaluation = one obligation (path condition AND NOT goal) decided by the solver; distinct = distinct "
                 "SMT-LIB text of the goal; non-trivial = the goal still contains solver variables after preprocessing"),
        "samples": samples[:8] + extra.get("samples", []),
        "exhaustive": bool(getattr(mod, "EXHAUSTIVE", {}).get(tier, False)),
        "counterexamples_replayed": nreplay,
        "violations": [{"cfg": v[0], "obligation": v[1], "replay": v[2]} for v in violations],
        "known_findings_hit": [{"pattern": p, "occurrences": len(h)} for p, (k, h) in known_hits.items()],
        "inconclusive": [list(x) for x in inconcl[:20]],
        "harness_errors": [list(x)[:2] for x in harness_errors[:10]],
        "definedness_assumptions_sample": assumed,
    }
    for k, v in extra.items():
        if k not in ("violations", "harness_errors", "inconclusive", "samples", "evaluations", "distinct_nontrivial", "summary"):
            cov[k] = v
    if "summary" in extra:
        cov["extra_phases"] = extra["summary"]
    ev = {"property_id": mod.PROPERTY, "tier": tier, "seed": int(seed), "level": "other", "coverage": cov,
          "assumptions": list(npenv.STUBS) + list(getattr(mod, "ASSUMPTIONS", [])),
          "wall_s": round(wall, 2), "violations": len(violations)}
    path = os.path.join(EVID_DIR, "%s.json" % mod.PROPERTY)
    with open(path, "w") as f:
        json.dump(ev, f, indent=1, default=str)
    try:
        import jsonschema
        with open("/root/.vp/EVIDENCE.schema.json") as f:
            jsonschema.validate(ev, json.load(f))
    except FileNotFoundError:
        pass


def _z3ver():
    import z3
    return z3.get_version_string()


if __name__ == "__main__":
    if len(sys.argv) >= 3 and sys.argv[1] == "--replay":
        sys.exit(replay_file(sys.argv[2]))
    modname, tier = sys.argv[1], sys.argv[2]
    seed = int(os.environ.get("VERIF_SEED", "0"))
    sys.exit(main_check(modname, tier, seed))
