"""Obligation builders that work in both modes:

* symbolic mode (operands contain SymK): returns a scalar.B formula to be proven valid on the path
* float mode (replay against the unpatched code): evaluates numerically with a tolerance and
  returns a constant B

plus value factories (SymValues / FloatValues) so one harness body serves both modes.
"""
import random
from fractions import Fraction

import numpy as np

from .scalar import B, SymK, SymBool, TRUE, FALSE, sym_array, sym_scalar, cur, Rat, R0
from . import scalar as S

FLOAT_RTOL = 1e-6


def is_sym(x):
    if isinstance(x, (SymK, SymBool)):
        return True
    if isinstance(x, np.ndarray) and x.dtype == object:
        return True
    if isinstance(x, (list, tuple)):
        return any(is_sym(v) for v in x)
    return False


def _flat(x):
    if isinstance(x, np.ndarray):
        return list(x.ravel())
    if isinstance(x, (list, tuple)):
        out = []
        for v in x:
            out.extend(_flat(v))
        return out
    return [x]


def _shape(x):
    return tuple(np.shape(x)) if not isinstance(x, SymK) else ()


def eq(a, b):
    """element-wise exact equality (shapes must agree)"""
    if _shape(a) != _shape(b):
        return FALSE
    if is_sym(a) or is_sym(b):
        fa, fb = _flat(a), _flat(b)
        return B.and_(*[_lift(x).eqb(_lift(y)) for x, y in zip(fa, fb)])
    a = np.asarray(a)
    b = np.asarray(b)
    scale = max(1.0, float(np.max(np.abs(a), initial=0)), float(np.max(np.abs(b), initial=0)))
    if not (np.all(np.isfinite(a)) and np.all(np.isfinite(b))):
        return FALSE
    return B.const(bool(np.all(np.abs(a - b) <= FLOAT_RTOL * scale)))


def _lift(x):
    v = SymK.lift(x)
    if v is NotImplemented:
        raise TypeError("cannot lift %r" % (x,))
    return v


def close(a, b, rtol, scale):
    """|a - b| <= rtol * scale, element-wise; scale: non-negative real scalar"""
    if _shape(a) != _shape(b):
        return FALSE
    if is_sym(a) or is_sym(b) or is_sym(scale):
        sc = _lift(scale)
        bound = sc * sc * Fraction(rtol) ** 2
        outs = []
        for x, y in zip(_flat(a), _flat(b)):
            d = _lift(x) - _lift(y)
            outs.append(le(d.abs2(), bound))
        return B.and_(*outs)
    a = np.asarray(a)
    b = np.asarray(b)
    return B.const(bool(np.all(np.abs(a - b) <= max(rtol, FLOAT_RTOL) * abs(scale) + 1e-300)))


def near(a, b, tol):
    """component-wise |re(a-b)| <= tol and |im(a-b)| <= tol (absolute; use with box-bounded inputs)"""
    if _shape(a) != _shape(b):
        return FALSE
    if is_sym(a) or is_sym(b):
        t = Rat.const(Fraction(tol))
        outs = []
        for x, y in zip(_flat(a), _flat(b)):
            d = _lift(x) - _lift(y)
            for c in d.c:
                outs.append(B.cmp("<=", (c - t).sign_poly()))
                outs.append(B.cmp("<=", (-c - t).sign_poly()))
        return B.and_(*outs)
    a = np.asarray(a)
    b = np.asarray(b)
    return B.const(bool(np.all(np.abs(a - b) <= max(tol, FLOAT_RTOL) * 4)))


def within_disc(z, tol, ndir=16):
    """|z| <= tol for a complex scalar z (field Q(i)), as the LINEAR sufficient condition  Re(z e^{-i theta_k}) <= tol cos(pi/ndir)
    for ndir directions theta_k (the regular ndir-gon inscribed in the disc of radius tol)"""
    import math
    if isinstance(z, SymK):
        re, im = z.c[0], z.c[1]
        lim = Fraction(float(tol) * math.cos(math.pi / ndir))
        outs = []
        for k in range(ndir):
            th = 2 * math.pi * k / ndir
            e = re.scale(Fraction(math.cos(th))) + im.scale(Fraction(math.sin(th))) - Rat.const(lim)
            outs.append(B.cmp("<=", e.sign_poly()))
        return B.and_(*outs)
    return B.const(abs(complex(z)) <= float(tol) * (1 + 1e-9))


def _real_rat(x, what="ordering"):
    return _lift(x)._re(what)


def le(a, b):
    if is_sym(a) or is_sym(b):
        d = _real_rat(a) - _real_rat(b)
        return B.cmp("<=", d.sign_poly())
    a, b = float(np.real(a)), float(np.real(b))
    return B.const(a <= b + FLOAT_RTOL * max(1.0, abs(a), abs(b)))


def lt(a, b):
    if is_sym(a) or is_sym(b):
        d = _real_rat(a) - _real_rat(b)
        return B.cmp("<", d.sign_poly())
    a, b = float(np.real(a)), float(np.real(b))
    return B.const(a < b + FLOAT_RTOL * max(1.0, abs(a), abs(b)))


def ge(a, b):
    return le(b, a)


def gt(a, b):
    return lt(b, a)


def is_zero(a):
    return eq(a, np.zeros(_shape(a)) if _shape(a) else 0)


def is_real(a):
    outs = []
    for x in _flat(a):
        if isinstance(x, SymK):
            outs.append(x.imag.eqb(0))
        else:
            outs.append(B.const(abs(complex(x).imag) <= FLOAT_RTOL * max(1.0, abs(complex(x)))))
    return B.and_(*outs)


def all_(xs):
    return B.and_(*list(xs))


def any_(xs):
    return B.or_(*list(xs))


def implies(a, b):
    return B.implies(a, b)


def not_(a):
    return B.not_(a)


def const(v):
    return B.const(bool(v))


def vdot(a, b):
    """<a, b> = sum conj(a) * b (both modes)"""
    if is_sym(a) or is_sym(b):
        s = SymK.real_(R0)
        for x, y in zip(_flat(a), _flat(b)):
            s = s + _lift(x).conjugate() * _lift(y)
        return s
    return np.vdot(np.asarray(a).ravel(), np.asarray(b).ravel())


def norm2(a):
    """sum |a_i|^2 (both modes)"""
    if is_sym(a):
        s = SymK.real_(R0)
        for x in _flat(a):
            s = s + _lift(x).abs2()
        return s
    return float(np.sum(np.abs(np.asarray(a)) ** 2))


# --------------------------------------------------------------------------- value factories

class SymValues:
    """symbolic inputs: every array element / scalar is a fresh solver variable"""
    symbolic = True

    def __init__(self):
        self.names = []
        self._vars = {}

    def array(self, name, shape, cplx=True):
        self.names.append(name)
        vs = self._vars.setdefault(name, [])
        for idx in np.ndindex(*tuple(shape)):
            tag = name + "".join("_%d" % i for i in idx)
            vs.append(Rat.var(tag + "r"))
            if cplx:
                vs.append(Rat.var(tag + "i"))
        return sym_array(name, tuple(shape), cplx)

    def scalar(self, name, cplx=False):
        self.names.append(name)
        vs = self._vars.setdefault(name, [])
        if cplx:
            vs.extend([Rat.var(name + "r"), Rat.var(name + "i")])
        else:
            vs.append(Rat.var(name))
        return sym_scalar(name, cplx)

    def assume(self, cond, what="precondition"):
        if isinstance(cond, SymBool):
            cond = cond.b
        cur().assume(cond, what)

    def box(self, bound=1):
        """assume every real solver variable created so far lies in [-bound, bound]"""
        ctx = cur()
        bd = Rat.const(Fraction(bound))
        n = 0
        for nm in self.names:
            for v in self._vars.get(nm, []):
                ctx.add(B.cmp("<=", (v - bd).n))
                ctx.add(B.cmp("<=", (-v - bd).n))
                n += 1
        if n:
            ctx.defined.append(("box", "%d real input variables assumed in [-%s, %s]" % (n, bound, bound)))

    def const_array(self, a):
        return S.lift_array(a)


class FloatValues:
    """concrete inputs read from a model (name -> value); missing names get small pseudo-random
    rationals (they were don't-cares for the solver)"""
    symbolic = False

    def __init__(self, env, seed=0, real_dtype=np.float64, complex_dtype=np.complex128):
        self.env = env or {}
        self.rng = random.Random(seed)
        self.ok = True
        self.rd, self.cd = real_dtype, complex_dtype
        self._made = []

    def _get(self, tag):
        v = self.env.get(tag)
        if v is None:
            v = Fraction(self.rng.randint(-8, 8), 8)
        v = float(Fraction(v))
        self._made.append(v)
        return v

    def array(self, name, shape, cplx=True):
        a = np.empty(tuple(shape), dtype=self.cd if cplx else self.rd)
        for idx in np.ndindex(*tuple(shape)):
            tag = name + "".join("_%d" % i for i in idx)
            a[idx] = complex(self._get(tag + "r"), self._get(tag + "i")) if cplx else self._get(tag + "r")
        return a

    def scalar(self, name, cplx=False):
        if cplx:
            return complex(self._get(name + "r"), self._get(name + "i"))
        return self._get(name)

    def assume(self, cond, what="precondition"):
        if isinstance(cond, B):
            cond = cond.a if cond.k == "c" else True
        if not bool(cond):
            self.ok = False

    def box(self, bound=1):
        for v in self._made:
            if abs(v) > bound * (1 + 1e-12):
                self.ok = False

    def const_array(self, a):
        return np.asarray(a)
