"""Symbolic scalars (SymK), symbolic booleans (B / SymBool) and the path-forking context.

A SymK is an element of Q(zeta_N) (x) Q(v1..vm): a coordinate vector of exact rational
functions (algebra.Rat).  For the default N = 4 it is (re, im).  The real sigpy code runs on
NumPy object arrays holding these scalars; each branch on a symbolic value is resolved by the
current path context (z3 feasibility queries) and forks the execution.
"""
import math
import os
from fractions import Fraction

import numpy as np
import z3

from . import algebra as A
from .algebra import Poly, Rat, R0, R1, P0, P1


class Abort(BaseException):
    """infeasible / abandoned path (never caught by the code under test)"""


class Unsupported(BaseException):
    """operation the symbolic layer cannot represent -> configuration inconclusive"""


# --------------------------------------------------------------------------- boolean terms

class B:
    """Quantifier-free formula over polynomial sign atoms.  kinds:
    'c' const(bool) | 'p' (op, Poly): poly op 0, op in < <= == != | 'and' | 'or' | 'not'"""
    __slots__ = ("k", "a", "_z")

    def __init__(self, k, a):
        self.k = k
        self.a = a
        self._z = None

    # constructors
    @staticmethod
    def const(v):
        return TRUE if v else FALSE

    @staticmethod
    def cmp(op, p):
        """p (Poly) op 0"""
        if p.is_const():
            c = p.cval()
            return B.const({"<": c < 0, "<=": c <= 0, "==": c == 0, "!=": c != 0}[op])
        return B("p", (op, p, P0))

    @staticmethod
    def cmp2(op, p, q):
        """p op q with both sides handed to the solver un-subtracted (the solver, not the
        preprocessing algebra, establishes the identity)"""
        if p.is_const() and q.is_const():
            return B.cmp(op, p - q)
        return B("p", (op, p, q))

    @staticmethod
    def and_(*xs):
        out = []
        for x in xs:
            if x.k == "c":
                if not x.a:
                    return FALSE
                continue
            if x.k == "and":
                out.extend(x.a)
            else:
                out.append(x)
        if not out:
            return TRUE
        if len(out) == 1:
            return out[0]
        return B("and", tuple(out))

    @staticmethod
    def or_(*xs):
        out = []
        for x in xs:
            if x.k == "c":
                if x.a:
                    return TRUE
                continue
            if x.k == "or":
                out.extend(x.a)
            else:
                out.append(x)
        if not out:
            return FALSE
        if len(out) == 1:
            return out[0]
        return B("or", tuple(out))

    @staticmethod
    def not_(x):
        if x.k == "c":
            return B.const(not x.a)
        if x.k == "not":
            return x.a
        if x.k == "p":
            op, p, q = x.a
            if op == "<":      # not(p<q) = q <= p
                return B("p", ("<=", q, p))
            if op == "<=":
                return B("p", ("<", q, p))
            if op == "==":
                return B("p", ("!=", p, q))
            return B("p", ("==", p, q))
        return B("not", x)

    @staticmethod
    def implies(a, b):
        return B.or_(B.not_(a), b)

    @staticmethod
    def ite(c, a, b):
        return B.and_(B.implies(c, a), B.implies(B.not_(c), b))

    def is_const(self):
        return self.k == "c"

    def z3(self):
        if self._z is None:
            k = self.k
            if k == "c":
                self._z = z3.BoolVal(self.a)
            elif k == "p":
                op, p, q = self.a
                e, f = p.z3(), q.z3()
                self._z = {"<": e < f, "<=": e <= f, "==": e == f, "!=": e != f}[op]
            elif k == "and":
                self._z = z3.And([x.z3() for x in self.a])
            elif k == "or":
                self._z = z3.Or([x.z3() for x in self.a])
            else:
                self._z = z3.Not(self.a.z3())
        return self._z

    def smt2(self):
        k = self.k
        if k == "c":
            return "true" if self.a else "false"
        if k == "p":
            op, p, q = self.a
            if op == "!=":
                return "(not (= %s %s))" % (p.smt2(), q.smt2())
            return "(%s %s %s)" % ({"<": "<", "<=": "<=", "==": "="}[op], p.smt2(), q.smt2())
        if k == "and":
            return "(and %s)" % " ".join(x.smt2() for x in self.a)
        if k == "or":
            return "(or %s)" % " ".join(x.smt2() for x in self.a)
        return "(not %s)" % self.a.smt2()

    def vars(self):
        k = self.k
        if k == "c":
            return set()
        if k == "p":
            return self.a[1].vars() | self.a[2].vars()
        if k == "not":
            return self.a.vars()
        s = set()
        for x in self.a:
            s |= x.vars()
        return s

    def eval(self, env):
        k = self.k
        if k == "c":
            return self.a
        if k == "p":
            op, p, q = self.a
            v = p.eval(env) - q.eval(env)
            return {"<": v < 0, "<=": v <= 0, "==": v == 0, "!=": v != 0}[op]
        if k == "and":
            return all(x.eval(env) for x in self.a)
        if k == "or":
            return any(x.eval(env) for x in self.a)
        return not self.a.eval(env)

    def __repr__(self):
        k = self.k
        if k == "c":
            return str(self.a)
        if k == "p":
            return "(%r %s %r)" % (self.a[1], self.a[0], self.a[2])
        if k == "not":
            return "not %r" % (self.a,)
        return "(" + (" %s " % k).join(repr(x) for x in self.a) + ")"


TRUE = B("c", True)
FALSE = B("c", False)


# --------------------------------------------------------------------------- path context

STATS = {"branch_queries": 0, "branch_time": 0.0, "paths": 0}


class Ctx:
    cur = None
    RLIMIT = int(os.environ.get("SYMSIG_BRANCH_RLIMIT", "3000000"))
    WALL_S = float(os.environ.get("SYMSIG_BRANCH_WALL_S", "40"))

    def __init__(self, prefix=()):
        self.prefix = list(prefix)
        self.pos = 0
        self.decisions = []
        self.pc = []            # list of B
        self.pending = []
        self.naux = 0
        self.defined = []       # (what, B) definedness assumptions
        self.aux = []           # (name, description)
        self._memo = {}
        self.model = None
        self.nq = 0
        self.unknown_branches = 0
        self.notes = []
        self.rules = {}         # aux variable id -> Poly r: the path condition contains  var^2 == r  (used by reduce_b)
        self._pckeys = set()
        self.unchecked = False      # a lazily added definedness assumption has not been confirmed satisfiable yet
        self.pc_known_sat = True    # every atom is added by branch()/assume() after a feasibility check (Abort otherwise)
        self.defidx = {}        # index into pc -> group id, for atoms that only DEFINE auxiliary variables (see relevant_pc)
        self.defgroups = []     # group id -> set of auxiliary variable ids defined by the group

    # -- constraints
    def add(self, b, note=None):
        if b.k == "c":
            if not b.a:
                raise Abort("contradictory assumption %s" % (note or ""))
            return
        key = b.smt2() if b.k == "p" else None
        if key is not None:
            if key in self._pckeys:
                return          # the identical atom is already on the path
            self._pckeys.add(key)
        self.pc.append(b)
        if self.model is not None:
            if self._model_says(b) is not True:
                self.model = None

    def assume(self, b, what="assume", lazy=False):
        """harness precondition / definedness assumption.  lazy: the satisfiability check is deferred to the next branch / the end of the
        path (used for 'denominator != 0', which is almost never contradictory; confirm() must be called before the path is counted)"""
        if isinstance(b, SymBool):
            b = b.b
        if b.k == "c" and b.a:
            return
        n0 = len(self.pc)
        self.add(b, what)
        if len(self.pc) == n0:
            return
        self.defined.append((what, repr(b)[:200]))
        if lazy:
            if self.model is None:
                self.unchecked = True
            return
        # keep the path satisfiable
        if self.model is None and self._check() == "unsat":
            raise Abort("assumption makes path infeasible: %s" % what)
        self.unchecked = False

    def confirm(self):
        """end of path: the path condition (incl. lazily added assumptions) must be satisfiable, else the path is dropped"""
        if self.unchecked and self.model is None:
            if self._check() == "unsat":
                raise Abort("path condition unsatisfiable (lazy definedness assumption)")
        self.unchecked = False

    def add_def(self, auxvars, atoms):
        """add atoms that define the auxiliary variables auxvars (total definitions: for every value of the other variables
        satisfying the separately recorded definedness assumption there are values of auxvars satisfying them)"""
        gid = len(self.defgroups)
        self.defgroups.append(set(_single_var(v.n) for v in auxvars))
        for b in atoms:
            n0 = len(self.pc)
            self.add(b)
            if len(self.pc) > n0:
                self.defidx[n0] = gid

    def relevant_pc(self, goal):
        """path condition without the definitions of auxiliary variables that neither the goal nor any branch condition /
        assumption (transitively) mentions - an exact slicing, since those definitions are total"""
        if not self.defidx:
            return self.pc
        needed = set(goal.vars())
        for i, b in enumerate(self.pc):
            if i not in self.defidx:
                needed |= b.vars()
        inc = set()
        changed = True
        while changed:
            changed = False
            for gid, vs in enumerate(self.defgroups):
                if gid not in inc and vs & needed:
                    inc.add(gid)
                    for i, g in self.defidx.items():
                        if g == gid:
                            needed |= self.pc[i].vars()
                    changed = True
        return [b for i, b in enumerate(self.pc) if i not in self.defidx or self.defidx[i] in inc]

    def cone_pc(self, goal):
        """goal-directed slice: atoms without auxiliary variables, plus the atoms connected to the goal through shared auxiliary
        variables.  Only a subset of the path condition, so 'unsat' with it is sound; any other verdict must be re-decided with
        relevant_pc (the runner does)."""
        aux = set()
        for vs in self.defgroups:
            aux |= vs
        if not aux:
            return self.pc
        need = set(goal.vars()) & aux
        atoms = [(b, b.vars() & aux) for b in self.pc]
        changed = True
        keep = [not av for _, av in atoms]
        while changed:
            changed = False
            for i, (b, av) in enumerate(atoms):
                if not keep[i] and av & need:
                    keep[i] = True
                    if not av <= need:
                        need |= av
                    changed = True
        return [b for (b, _), k in zip(atoms, keep) if k]

    def fresh(self, tag, desc=""):
        self.naux += 1
        name = "%s!%d" % (tag, self.naux)
        self.aux.append((name, desc))
        return Rat.var(name)

    def _check(self, extra=None):
        """satisfiability of the path condition (+ extra) in a forked, hard-limited solver process"""
        from . import solve
        self.nq += 1
        STATS["branch_queries"] += 1
        import time
        t = time.time()
        pcs = self.pc
        partial = False
        if extra is not None and self.pc_known_sat:
            # constraint independence: the path condition is satisfiable, so pc AND extra is satisfiable iff the atoms connected to
            # extra through shared variables (transitively) are - the other components are satisfiable on their own
            need = set(extra.vars())
            av = [(b, b.vars()) for b in self.pc]
            keep = [False] * len(av)
            changed = True
            while changed:
                changed = False
                for i, (b, vs) in enumerate(av):
                    if not keep[i] and vs & need:
                        keep[i] = True
                        if not vs <= need:
                            need |= vs
                        changed = True
            pcs = [b for (b, _), k in zip(av, keep) if k]
            partial = len(pcs) != len(self.pc)
        zs = [b.z3() for b in pcs]
        names = set()
        for b in pcs:
            names |= {A.var_name(v) for v in b.vars()}
        if extra is not None:
            zs.append(extra.z3())
            names |= {A.var_name(v) for v in extra.vars()}
        r, env = solve.hard_query(zs, sorted(names), self.WALL_S, self.RLIMIT)
        if r == "sat":
            if partial and self.model is not None:
                self.model = dict(self.model, **env)
            else:
                self.model = env
        STATS["branch_time"] += time.time() - t
        return r

    def feasible(self, b):
        if b.k == "c":
            return "sat" if b.a else "unsat"
        return self._check(b)

    def _model_says(self, b):
        """truth value of b under the last model (a hint: models with algebraic values are approximations, so a
        wrong hint can only make us explore an infeasible path, which is sound)"""
        if self.model is None:
            return None
        try:
            env = _EnvById(self.model)
            return bool(b.eval(env))
        except (KeyError, ZeroDivisionError):
            return None

    def branch(self, b):
        if b.k == "c":
            return b.a
        if self.pos < len(self.prefix):
            take = self.prefix[self.pos]
            self.pos += 1
            self.decisions.append(take)
            self.add(b if take else B.not_(b))
            return take
        nb = B.not_(b)
        ms = self._model_says(b)
        if ms is True:
            ft = "sat"
            ff = self.feasible(nb)
        elif ms is False:
            ff = "sat"
            ft = self.feasible(b)
        else:
            ft = self.feasible(b)
            ff = self.feasible(nb) if ft != "unsat" else "sat"
        if ft == "unknown" or ff == "unknown":
            self.unknown_branches += 1
        okt = ft != "unsat"
        okf = ff != "unsat"
        if okt and okf:
            self.pending.append(self.decisions + [False])
            take = True
        elif okt:
            take = True
        elif okf:
            take = False
        else:
            raise Abort("infeasible path")
        self.pos += 1
        self.decisions.append(take)
        self.add(b if take else nb)
        return take

    # -- auxiliary functions (memoised per path)
    def sqrt(self, r):
        """non-negative square root of a real Rat"""
        if r.is_const():
            c = r.cval()
            if c < 0:
                raise ValueError("sqrt of negative constant")
            n, d = c.numerator, c.denominator
            rn, rd = math.isqrt(n), math.isqrt(d)
            if rn * rn == n and rd * rd == d:
                return Rat.const(Fraction(rn, rd))
        key = ("sqrt", r.key())
        s = self._memo.get(key)
        if s is None and not r.d and len(r.n.t) == 1:
            # c * m^2 with c a rational square: sqrt = |sqrt(c) m| (forks on the sign, like abs) - no auxiliary variable
            (m, c), = r.n.t.items()
            if c > 0 and all(k % 2 == 0 for _, k in m):
                rn, rd = math.isqrt(c.numerator), math.isqrt(c.denominator)
                if rn * rn == c.numerator and rd * rd == c.denominator:
                    q = Rat(A.Poly({tuple((v, k // 2) for v, k in m): Fraction(rn, rd)}))
                    s = q if self.branch(B.cmp("<=", -q.n)) else -q
                    self._memo[key] = s
                    return s
        if s is None and r.d and all(k % 2 == 0 for k in r.d.values()) and not r.n.is_const():
            # n / e^2: sqrt = sqrt(n) / |e|  (keeps the radicand polynomial, so that its defining equation is a rewrite rule)
            e_poly = P1
            for a, k in r.d.items():
                for _ in range(k // 2):
                    e_poly = e_poly * a
            inv_e = Rat(P1, {a: k // 2 for a, k in r.d.items()})
            root_n = self.sqrt(Rat(r.n))
            pos = self.branch(B.cmp("<=", -e_poly)) if not e_poly.is_const() else (e_poly.cval() >= 0)
            s = root_n * inv_e if pos else -(root_n * inv_e)
            self._memo[key] = s
            return s
        if s is None:
            sp = r.sign_poly()
            nonneg = B.cmp("<=", -sp)
            if nonneg.k != "c" or not nonneg.a:
                self.assume(nonneg, "sqrt argument >= 0")
            s = self.fresh("s", "sqrt(%s)" % (repr(r)[:80]))
            # s >= 0, s^2 * dpoly == n
            self.add_def([s], [B.cmp("<=", -s.n), B.cmp("==", s.n * s.n * r.dpoly() - r.n)])
            if not r.d:
                self.rules[_single_var(s.n)] = r.n
            self._memo[key] = s
        return s

    def register_sqrt(self, value, root):
        """harness hint: sqrt(value) = root for SymK reals with root^2 == value identically (checked) and root >= 0 assumed;
        avoids an auxiliary variable when the state is parametrised so that the radicand is a perfect square"""
        v, r = value._re("sqrt hint"), root._re("sqrt hint")
        if not (r * r - v).is_zero():
            raise ValueError("register_sqrt: root^2 != value")
        self.assume(B.cmp("<=", -r.sign_poly()), "registered square root >= 0")
        self._memo[("sqrt", v.key())] = r

    TRIG_DENOM = None      # harness option: D > 0 enables the angle-addition decomposition exp(i sum c_m m) = prod u_m^(c_m D)
    TRIG_SIN_BOUND = False  # harness option: add sin(r)^2 <= r^2 for polynomial arguments

    def _trig_base(self, mono):
        """unit complex number u = exp(i * mono / D) for a non-constant monomial (contract: |u| = 1, mono = 0 -> u = 1)"""
        key = ("trigbase", mono)
        v = self._memo.get(key)
        if v is None:
            mp = A.Poly({mono: Fraction(1)})
            c = self.fresh("cosb", "cos(%r/%d)" % (mp, self.TRIG_DENOM))
            s = self.fresh("sinb", "sin(%r/%d)" % (mp, self.TRIG_DENOM))
            self.add_def([c, s], [B.cmp("==", c.n * c.n + s.n * s.n - P1),
                                  B.implies(B.cmp("==", mp), B.and_(B.cmp("==", c.n - P1), B.cmp("==", s.n)))])
            self.rules[_single_var(c.n)] = P1 - s.n * s.n
            v = self._memo[key] = (c, s)
        return v

    def _trig_decomposed(self, r):
        """exp(i r) for a polynomial r whose non-constant coefficients are multiples of 1/D (|k| <= 8), as a product of
        base units (exp is a homomorphism; distinct monomials get independent units, an over-approximation); None otherwise"""
        D = self.TRIG_DENOM
        if not D or r.d:
            return None
        parts = []
        for m, c in r.n.t.items():
            if m == ():
                continue
            k = c * D
            if k.denominator != 1 or abs(k) > 8:
                return None
            parts.append((m, int(k)))
        c0 = float(r.n.t.get((), 0))
        re, im = (R1, R0) if c0 == 0 else (Rat.const(Fraction(math.cos(c0))), Rat.const(Fraction(math.sin(c0))))
        for m, k in sorted(parts):
            bc, bs = self._trig_base(m)
            if k < 0:
                bs, k = -bs, -k
            for _ in range(k):
                re, im = re * bc - im * bs, re * bs + im * bc
        return re, im

    def trig(self, r):
        """(cos r, sin r) contract stub for a real Rat argument"""
        key = ("trig", r.key())
        v = self._memo.get(key)
        if v is None:
            dec = None if r.is_const() else self._trig_decomposed(r)
            if dec is not None:
                v = dec
                if self.TRIG_SIN_BOUND:
                    self.add(B.cmp("<=", v[1].n * v[1].n - r.n * r.n))
            elif r.is_const():
                c = float(r.cval())
                v = (Rat.const(Fraction(math.cos(c))), Rat.const(Fraction(math.sin(c))))
                if c == 0:
                    v = (R1, R0)
            else:
                neg = self._memo.get(("trig", (-r).key()))
                if neg is not None:
                    v = (neg[0], -neg[1])
                else:
                    c = self.fresh("cos", "cos(%s)" % (repr(r)[:60]))
                    s = self.fresh("sin", "sin(%s)" % (repr(r)[:60]))
                    self.rules[_single_var(c.n)] = P1 - s.n * s.n
                    # c^2 + s^2 = 1;  r == 0 -> c == 1, s == 0;  optionally sin^2 <= r^2
                    defs = [B.cmp("==", c.n * c.n + s.n * s.n - P1),
                            B.implies(B.cmp("==", r.n), B.and_(B.cmp("==", c.n - P1), B.cmp("==", s.n)))]
                    if self.TRIG_SIN_BOUND:
                        dp = r.dpoly()
                        defs.append(B.cmp("<=", s.n * s.n * dp * dp - r.n * r.n))
                    self.add_def([c, s], defs)
                    v = (c, s)
            self._memo[key] = v
        return v

    def angle(self, re, im):
        """np.angle(re + i im) contract stub: a fresh real theta whose (cos, sin) satisfy cos*|z| = re, sin*|z| = im,
        cos^2 + sin^2 = 1 and (z = 0 -> theta = 0, cos = 1, sin = 0)"""
        key = ("angle", re.key(), im.key())
        th = self._memo.get(key)
        if th is None:
            t = self.sqrt(re * re + im * im)
            th = self.fresh("ang", "angle(%s + i %s)" % (repr(re)[:40], repr(im)[:40]))
            c = self.fresh("cosa", "cos(angle)")
            s = self.fresh("sina", "sin(angle)")
            self.add(B.cmp("==", c.n * c.n + s.n * s.n - P1))
            self.rules[_single_var(c.n)] = P1 - s.n * s.n
            self.add(_rat_eq(c * t, re))
            self.add(_rat_eq(s * t, im))
            z0 = B.and_(_rat_eq(re, R0), _rat_eq(im, R0))
            self.add(B.implies(z0, B.and_(B.cmp("==", c.n - P1), B.cmp("==", s.n), B.cmp("==", th.n))))
            self._memo[("trig", th.key())] = (c, s)
            self._memo[("trig", (-th).key())] = (c, -s)
            self._memo[key] = th
        return th


def _single_var(p):
    (m, c), = p.t.items()
    (v, k), = m
    assert k == 1 and c == 1
    return v


def reduce_poly(p, rules):
    """normal form of Poly p modulo the rewrite rules  v^2 -> rules[v]  (equalities of the path condition; the rules are
    acyclic by creation order and their left-hand sides are squares of distinct variables, so the rewriting is confluent)"""
    if not rules:
        return p
    for _ in range(200):
        hit = False
        out = P0
        acc = {}
        for m, c in p.t.items():
            red = None
            for i, (v, k) in enumerate(m):
                if k >= 2 and v in rules:
                    red = (i, v, k)
                    break
            if red is None:
                acc[m] = acc.get(m, 0) + c
                continue
            hit = True
            i, v, k = red
            rest = m[:i] + (((v, k % 2),) if k % 2 else ()) + m[i + 1:]
            term = A.Poly({rest: c})
            rp = rules[v]
            for _j in range(k // 2):
                term = term * rp
            out = out + term
        p = A.Poly({m: c for m, c in acc.items() if c}) + out
        if not hit:
            return p
    raise Unsupported("reduce_poly did not terminate")


def reduce_b(b, rules):
    """apply reduce_poly to both sides of every atom (sound: the rules are consequences of the path condition)"""
    if not rules or b.k == "c":
        return b
    if b.k == "p":
        op, p, q = b.a
        p2, q2 = reduce_poly(p, rules), reduce_poly(q, rules)
        if p2 is p and q2 is q:
            return b
        if p2.t == q2.t:
            return B.cmp(op, P0)
        return B.cmp2(op, p2, q2) if (q2.t) else B.cmp(op, p2)
    if b.k == "and":
        return B.and_(*[reduce_b(x, rules) for x in b.a])
    if b.k == "or":
        return B.or_(*[reduce_b(x, rules) for x in b.a])
    if b.k == "not":
        return B.not_(reduce_b(b.a, rules))
    return b


class _EnvById:
    """adapter: variable id -> value from a name-keyed model; unknown variables default to 0 (model completion)"""

    def __init__(self, env):
        self.env = env

    def __getitem__(self, vid):
        return self.env.get(A.var_name(vid), Fraction(0))


def cur():
    c = Ctx.cur
    if c is None:
        raise RuntimeError("symbolic operation outside of a path context")
    return c


class PathResult:
    __slots__ = ("ctx", "value", "exc")

    def __init__(self, ctx, value, exc):
        self.ctx = ctx
        self.value = value
        self.exc = exc


class PathBudget(Exception):
    pass


def explore(fn, max_paths=2000):
    """run fn() on every feasible path (DFS over branch decisions, re-execution)."""
    work = [[]]
    n = 0
    while work:
        prefix = work.pop()
        ctx = Ctx(prefix)
        Ctx.cur = ctx
        try:
            try:
                res, exc = fn(), None
                ctx.confirm()
            except Abort as e:
                res, exc = None, e
            except Unsupported as e:
                res, exc = None, e
            except Exception as e:   # an exception of the code under test on this path
                res, exc = None, e
        finally:
            Ctx.cur = None
        work.extend(ctx.pending)
        n += 1
        STATS["paths"] += 1
        yield PathResult(ctx, res, exc)
        if n >= max_paths and work:
            raise PathBudget("more than %d paths" % max_paths)


# --------------------------------------------------------------------------- scalars

FIELD = A.Field(4)
_fields = {4: FIELD}


def set_field(N):
    global FIELD
    f = _fields.get(N)
    if f is None:
        f = _fields[N] = A.Field(N)
    FIELD = f
    return f


def _frac(v):
    if isinstance(v, Fraction):
        return v
    if isinstance(v, (bool, np.bool_)):
        return Fraction(int(v))
    if isinstance(v, (int, np.integer)):
        return Fraction(int(v))
    if isinstance(v, (float, np.floating)):
        v = float(v)
        if not math.isfinite(v):
            raise Unsupported("non-finite concrete value %r in symbolic arithmetic" % v)
        return Fraction(v)
    raise TypeError(type(v))


class SymBool:
    __slots__ = ("b",)

    def __init__(self, b):
        self.b = b

    def __bool__(self):
        return cur().branch(self.b)

    def __and__(self, o):
        return SymBool(B.and_(self.b, _tob(o)))
    __rand__ = __and__

    def __or__(self, o):
        return SymBool(B.or_(self.b, _tob(o)))
    __ror__ = __or__

    def __invert__(self):
        return SymBool(B.not_(self.b))

    def _num(self):
        return 1 if bool(self) else 0

    def __mul__(self, o):
        return self._num() * o
    __rmul__ = __mul__

    def __add__(self, o):
        return self._num() + o
    __radd__ = __add__

    def __sub__(self, o):
        return self._num() - o

    def __rsub__(self, o):
        return o - self._num()

    def __repr__(self):
        return "SymBool(%r)" % (self.b,)


def _tob(o):
    if isinstance(o, SymBool):
        return o.b
    if isinstance(o, B):
        return o
    return B.const(bool(o))


class SymK:
    __slots__ = ("c",)

    def __init__(self, c):
        self.c = c   # tuple of Rat

    # ---- construction
    @staticmethod
    def real_(r):
        return SymK((r,) + (R0,) * (FIELD.deg - 1))

    @staticmethod
    def cplx(re, im):
        if FIELD.deg == 2:
            return SymK((re, im))
        if im.is_zero():
            return SymK.real_(re)
        iv = FIELD.I
        return SymK(tuple((re if k == 0 else R0) + (im.scale(iv[k]) if iv[k] else R0) for k in range(FIELD.deg)))

    @staticmethod
    def constvec(v):
        return SymK(tuple(Rat.const(x) for x in v))

    @staticmethod
    def lift(v):
        if isinstance(v, SymK):
            return v
        if isinstance(v, SymBool):
            return SymK.real_(Rat.const(v._num()))
        if isinstance(v, (complex, np.complexfloating)):
            v = complex(v)
            return SymK.cplx(Rat.const(_frac(v.real)), Rat.const(_frac(v.imag)))
        if isinstance(v, np.ndarray) and v.ndim == 0:
            return SymK.lift(v.item())
        try:
            return SymK.real_(Rat.const(_frac(v)))
        except TypeError:
            return NotImplemented

    # ---- structure
    def is_real(self):
        if FIELD.deg == 2:
            return self.c[1].is_zero()
        cj = self.conjugate()
        return all((a - b).is_zero() for a, b in zip(self.c, cj.c))

    def is_rational_real(self):
        return all(x.is_zero() for x in self.c[1:])

    def is_const(self):
        return all(x.is_const() for x in self.c)

    def is_zero(self):
        return all(x.is_zero() for x in self.c)

    def _re(self, what):
        """the Rat of a (provably) real value; ordering is only defined for N = 4"""
        if all(x.is_zero() for x in self.c[1:]):
            return self.c[0]
        if FIELD.deg == 2:
            # imaginary part must vanish on this path
            if cur().feasible(B.cmp("!=", self.c[1].n)) == "unsat":
                return self.c[0]
        raise Unsupported("%s of a non-real symbolic value" % what)

    def cvalue(self):
        """concrete complex value (only if constant)"""
        if not self.is_const():
            raise Unsupported("concrete value of a symbolic scalar requested")
        if FIELD.deg == 2:
            return complex(float(self.c[0].cval()), float(self.c[1].cval()))
        return FIELD.embed([x.cval() for x in self.c])

    # ---- arithmetic
    def __add__(self, o):
        o = SymK.lift(o)
        if o is NotImplemented:
            return o
        return SymK(tuple(a + b for a, b in zip(self.c, o.c)))
    __radd__ = __add__

    def __neg__(self):
        return SymK(tuple(-a for a in self.c))

    def __pos__(self):
        return self

    def __sub__(self, o):
        o = SymK.lift(o)
        if o is NotImplemented:
            return o
        return SymK(tuple(a - b for a, b in zip(self.c, o.c)))

    def __rsub__(self, o):
        o = SymK.lift(o)
        if o is NotImplemented:
            return o
        return o - self

    def __mul__(self, o):
        o = SymK.lift(o)
        if o is NotImplemented:
            return o
        a, b = self.c, o.c
        if FIELD.deg == 2:
            if a[1].is_zero() and b[1].is_zero():
                return SymK((a[0] * b[0], R0))
            if b[1].is_zero():
                return SymK((a[0] * b[0], a[1] * b[0]))
            if a[1].is_zero():
                return SymK((a[0] * b[0], a[0] * b[1]))
            return SymK((a[0] * b[0] - a[1] * b[1], a[0] * b[1] + a[1] * b[0]))
        d = FIELD.deg
        out = [R0] * d
        T = FIELD.T
        for i in range(d):
            if a[i].is_zero():
                continue
            for j in range(d):
                if b[j].is_zero():
                    continue
                ab = a[i] * b[j]
                for k, cst in T[i][j]:
                    out[k] = out[k] + (ab if cst == 1 else ab.scale(cst))
        return SymK(tuple(out))
    __rmul__ = __mul__

    def conjugate(self):
        if FIELD.deg == 2:
            if self.c[1].is_zero():
                return self
            return SymK((self.c[0], -self.c[1]))
        d = FIELD.deg
        out = [R0] * d
        for i in range(d):
            if self.c[i].is_zero():
                continue
            for k, cst in FIELD.C[i]:
                out[k] = out[k] + self.c[i].scale(cst)
        return SymK(tuple(out))
    conj = conjugate

    def _inv(self):
        if all(x.is_zero() for x in self.c[1:]):
            r, atom = self.c[0].inv_parts() if not self.c[0].is_zero() else (None, None)
            if r is None:
                raise ZeroDivisionError("division by exact zero")
            if atom is not None:
                cur().assume(B.cmp("!=", atom), "denominator != 0", lazy=True)
            return SymK.real_(r)
        if FIELD.deg == 2:
            n2 = self.c[0] * self.c[0] + self.c[1] * self.c[1]
            inv = SymK.real_(n2)._inv()
            return self.conjugate() * inv
        if self.is_const():
            # constant field element: solve linear system numerically-exact via norm trick
            # x^{-1} = product of other Galois conjugates / norm ; simple approach: linear solve over Q
            return SymK.constvec(_field_inv([x.cval() for x in self.c]))
        raise Unsupported("division by a non-rational symbolic element of Q(zeta_%d)" % FIELD.N)

    def __truediv__(self, o):
        o = SymK.lift(o)
        if o is NotImplemented:
            return o
        return self * o._inv()

    def __rtruediv__(self, o):
        o = SymK.lift(o)
        if o is NotImplemented:
            return o
        return o * self._inv()

    def __pow__(self, p):
        if isinstance(p, SymK):
            if p.is_const():
                v = p.cvalue()
                p = v.real
            else:
                raise Unsupported("symbolic exponent")
        if isinstance(p, (int, np.integer)) or (isinstance(p, (float, np.floating)) and float(p) == int(p)):
            p = int(p)
            if p < 0:
                return (self ** (-p))._inv()
            r = SymK.real_(R1)
            for _ in range(p):
                r = r * self
            return r
        if p == 0.5:
            return self.sqrt()
        if p == -0.5:
            return self.sqrt()._inv()
        raise Unsupported("power %r" % (p,))

    def __rpow__(self, b):
        if self.is_const():
            return SymK.lift(b ** self.cvalue().real)
        raise Unsupported("symbolic exponent")

    def sqrt(self):
        if self.is_const() and FIELD.deg == 2 and self.c[1].is_zero() and self.c[0].cval() >= 0:
            c = self.c[0].cval()
            n, d = c.numerator, c.denominator
            rn, rd = math.isqrt(n), math.isqrt(d)
            if rn * rn == n and rd * rd == d:
                return SymK.real_(Rat.const(Fraction(rn, rd)))
            return SymK.lift(math.sqrt(float(c)))
        return SymK.real_(cur().sqrt(self._re("sqrt")))

    @property
    def real(self):
        if FIELD.deg == 2:
            return self if self.c[1].is_zero() else SymK((self.c[0], R0))
        s = self + self.conjugate()
        return SymK(tuple(x.scale(Fraction(1, 2)) for x in s.c))

    @property
    def imag(self):
        if FIELD.deg == 2:
            return SymK((self.c[1], R0))
        dlt = (self - self.conjugate()) * SymK.constvec(FIELD.zeta(3, 4))   # (z - conj z) * (-i)
        return SymK(tuple(x.scale(Fraction(1, 2)) for x in dlt.c))

    def abs2(self):
        if FIELD.deg == 2:
            return SymK.real_(self.c[0] * self.c[0] + self.c[1] * self.c[1])
        return self * self.conjugate()

    def __abs__(self):
        if all(x.is_zero() for x in self.c[1:]):
            r = self.c[0]
            if r.is_const():
                return SymK.real_(Rat.const(abs(r.cval())))
            # canonical orientation (the sign test is made on the representative with positive leading coefficient) so that
            # |p| and |-p| - and sqrt(p^2) - fork on the same predicate
            sp = r.sign_poly()
            lead = sp.t[max(sp.t, key=lambda m: A._MKey(m, len(A._names)))]
            if lead < 0:
                if cur().branch(B.cmp("<=", sp)):
                    return -self
                return self
            if cur().branch(B.cmp("<=", -sp)):
                return self
            return -self
        return self.abs2().sqrt()

    def item(self):
        return self

    # numpy ufunc hooks for object arrays
    def exp(self):
        if self.is_const():
            import cmath
            return SymK.lift(cmath.exp(self.cvalue()))
        if FIELD.deg != 2:
            raise Unsupported("exp in Q(zeta_%d)" % FIELD.N)
        if not self.c[0].is_zero():
            raise Unsupported("exp of a symbolic value with non-zero real part")
        c, s = cur().trig(self.c[1])
        return SymK((c, s))

    def angle(self):
        if self.is_const():
            import cmath
            return SymK.lift(cmath.phase(self.cvalue()))
        if FIELD.deg != 2:
            raise Unsupported("angle in Q(zeta_%d)" % FIELD.N)
        return SymK.real_(cur().angle(self.c[0], self.c[1]))

    def cos(self):
        if self.is_const():
            return SymK.lift(math.cos(self.cvalue().real))
        return SymK.real_(cur().trig(self._re("cos"))[0])

    def sin(self):
        if self.is_const():
            return SymK.lift(math.sin(self.cvalue().real))
        return SymK.real_(cur().trig(self._re("sin"))[1])

    # ---- comparisons
    def _cmp(self, o, op, swap=False):
        o = SymK.lift(o)
        if o is NotImplemented:
            return o
        a = self._re("ordering")
        b = o._re("ordering")
        d = (b - a) if swap else (a - b)
        return SymBool(B.cmp(op, d.sign_poly()))

    def __lt__(self, o):
        return self._cmp(o, "<")

    def __le__(self, o):
        return self._cmp(o, "<=")

    def __gt__(self, o):
        return self._cmp(o, "<", True)

    def __ge__(self, o):
        return self._cmp(o, "<=", True)

    def eqb(self, o):
        o = SymK.lift(o)
        return B.and_(*[_rat_eq(a, b) for a, b in zip(self.c, o.c)])

    def __eq__(self, o):
        o2 = SymK.lift(o)
        if o2 is NotImplemented:
            return False
        return SymBool(self.eqb(o2))

    def __ne__(self, o):
        o2 = SymK.lift(o)
        if o2 is NotImplemented:
            return True
        return SymBool(B.not_(self.eqb(o2)))

    __hash__ = None

    def __bool__(self):
        return cur().branch(B.not_(self.eqb(0)))

    def __float__(self):
        if self.is_const() and self.is_real():
            return float(self.cvalue().real)
        raise Unsupported("float() of a symbolic scalar")

    def __complex__(self):
        if self.is_const():
            return self.cvalue()
        raise Unsupported("complex() of a symbolic scalar")

    def __int__(self):
        if self.is_const() and self.is_real():
            return int(self.cvalue().real)
        raise Unsupported("int() of a symbolic scalar")

    def __index__(self):
        if self.is_const() and self.is_real():
            v = self.c[0].cval()
            if v.denominator == 1:
                return int(v)
        raise Unsupported("index from a symbolic scalar")

    def __ceil__(self):
        return self._round(True)

    def __floor__(self):
        return self._round(False)

    def _round(self, up):
        r = self._re("ceil/floor")
        if r.is_const():
            return math.ceil(r.cval()) if up else math.floor(r.cval())
        ctx = cur()
        sp, dp = r.n, r.dpoly()
        # r = sp/dp ; compare r with integer k:  sign(sp - k dp) * sign(dp)  -> use Rat arithmetic
        tries = 0
        while True:
            tries += 1
            if tries > 64:
                raise Unsupported("ceil/floor: too many candidate values")
            if ctx.model is None:
                rr = ctx._check()
                if rr == "unsat":
                    raise Abort("infeasible path (detected at ceil/floor)")
                if rr != "sat":
                    raise Unsupported("no model for the path at ceil/floor")
            fr = Fraction(r.eval(_EnvById(ctx.model)))
            k = math.ceil(fr) if up else math.floor(fr)
            kk = Rat.const(k)
            if up:   # k-1 < r <= k
                cond = B.and_(B.cmp("<", (Rat.const(k - 1) - r).sign_poly()), B.cmp("<=", (r - kk).sign_poly()))
            else:    # k <= r < k+1
                cond = B.and_(B.cmp("<=", (kk - r).sign_poly()), B.cmp("<", (r - Rat.const(k + 1)).sign_poly()))
            if ctx.branch(cond):
                return k

    def __round__(self, nd=None):
        if self.is_const():
            return round(self.cvalue().real, nd)
        raise Unsupported("round of symbolic")

    def __repr__(self):
        return "SymK(%s)" % ", ".join(repr(x) for x in self.c)


EQ_VIA_SOLVER = True


def _rat_eq(a, b):
    """a == b for Rats (denominator atoms are non-zero on the path): cross-multiplied polynomial
    equation; both sides go to the solver un-subtracted unless EQ_VIA_SOLVER is off"""
    if not EQ_VIA_SOLVER:
        return B.cmp("==", (a - b).n)
    if not a.d and not b.d:
        return B.cmp2("==", a.n, b.n)
    if a.d == b.d:
        return B.cmp2("==", a.n, b.n)
    L = dict(a.d)
    for t, k in b.d.items():
        if L.get(t, 0) < k:
            L[t] = k
    return B.cmp2("==", a.n * Rat._missing(L, a.d), b.n * Rat._missing(L, b.d))


def _rat_z3_value(r):
    if not r.d:
        return r.n.z3()
    return r.n.z3() / r.dpoly().z3()


def _z3_to_fraction(val):
    if z3.is_rational_value(val):
        return Fraction(val.numerator_as_long(), val.denominator_as_long())
    if z3.is_algebraic_value(val):
        a = val.approx(30)
        return Fraction(a.numerator_as_long(), a.denominator_as_long())
    val = z3.simplify(val)
    if z3.is_rational_value(val):
        return Fraction(val.numerator_as_long(), val.denominator_as_long())
    raise Unsupported("cannot read model value %s" % val)


def _field_inv(v):
    """inverse of a constant element of the current field (exact, Gaussian elimination over Q)"""
    d = FIELD.deg
    # matrix of multiplication by v
    M = [[Fraction(0)] * d for _ in range(d)]
    for j in range(d):
        e = [Fraction(0)] * d
        e[j] = Fraction(1)
        col = FIELD.mulc(tuple(v), tuple(e))
        for i in range(d):
            M[i][j] = col[i]
    rhs = [Fraction(1)] + [Fraction(0)] * (d - 1)
    # solve M x = rhs
    aug = [row[:] + [b] for row, b in zip(M, rhs)]
    for c in range(d):
        piv = next((r for r in range(c, d) if aug[r][c] != 0), None)
        if piv is None:
            raise ZeroDivisionError("zero field element")
        aug[c], aug[piv] = aug[piv], aug[c]
        pv = aug[c][c]
        aug[c] = [x / pv for x in aug[c]]
        for r in range(d):
            if r != c and aug[r][c] != 0:
                f = aug[r][c]
                aug[r] = [x - f * y for x, y in zip(aug[r], aug[c])]
    return [aug[i][d] for i in range(d)]


# --------------------------------------------------------------------------- array helpers

def sym_array(name, shape, cplx=True):
    a = np.empty(shape, dtype=object)
    for idx in np.ndindex(*shape):
        tag = name + "".join("_%d" % i for i in idx)
        a[idx] = SymK.cplx(Rat.var(tag + "r"), Rat.var(tag + "i") if cplx else R0)
    return a


def sym_scalar(name, cplx=False):
    return SymK.cplx(Rat.var(name + "r") if cplx else Rat.var(name), Rat.var(name + "i") if cplx else R0)


def lift_array(a):
    a = np.asarray(a)
    out = np.empty(a.shape, dtype=object)
    for idx in np.ndindex(*a.shape):
        v = SymK.lift(a[idx])
        if v is NotImplemented:
            raise TypeError("cannot lift %r" % (a[idx],))
        out[idx] = v
    return out
