"""Deciding obligations: path condition AND NOT(obligation) handed to z3 (and optionally cvc5)."""
import os
import time
from fractions import Fraction

import z3

from . import algebra as A
from .scalar import B, Unsupported

RLIMIT = int(os.environ.get("SYMSIG_RLIMIT", "40000000"))
TIMEOUT_MS = int(os.environ.get("SYMSIG_TIMEOUT_MS", "120000"))

STATS = {"queries": 0, "unsat": 0, "sat": 0, "unknown": 0, "time": 0.0, "trivial": 0}


def _model_env(model, bs):
    """name -> Fraction/float for every registered variable appearing in the formulas"""
    env = {}
    vs = set()
    for b in bs:
        vs |= b.vars()
    for v in vs:
        val = model.eval(A.zvar(v), model_completion=True)
        if z3.is_rational_value(val):
            fr = Fraction(val.numerator_as_long(), val.denominator_as_long())
        elif z3.is_algebraic_value(val):
            a = val.approx(40)
            fr = Fraction(a.numerator_as_long(), a.denominator_as_long())
        else:
            continue
        env[A.var_name(v)] = fr
    return env


def hard_query(zs, names, timeout_s, rlimit=None):
    """check-sat of the z3 assertions zs in a forked child that is killed after timeout_s wall seconds
    (z3's own timeout / rlimit are cooperative and are not honoured inside long nlsat polynomial operations).
    returns (verdict, env) with env: variable name -> Fraction for the names requested (sat only)."""
    import json
    import select
    import signal as _sig
    r, w = os.pipe()
    pid = os.fork()
    if pid == 0:
        try:
            os.close(r)
            _sig.signal(_sig.SIGALRM, _sig.SIG_DFL)
            _sig.alarm(0)
            sv = z3.Solver()
            sv.set("timeout", int(timeout_s * 1000))
            if rlimit:
                sv.set("rlimit", rlimit)
            for a in zs:
                sv.add(a)
            res = str(sv.check())
            env = {}
            if res == "sat":
                m = sv.model()
                for nm in names:
                    val = m.eval(z3.Real(nm), model_completion=True)
                    if z3.is_rational_value(val):
                        env[nm] = "%d/%d" % (val.numerator_as_long(), val.denominator_as_long())
                    elif z3.is_algebraic_value(val):
                        a = val.approx(40)
                        env[nm] = "%d/%d" % (a.numerator_as_long(), a.denominator_as_long())
            os.write(w, json.dumps([res, env]).encode())
        except BaseException as e:   # noqa
            try:
                os.write(w, json.dumps(["unknown", {"_error": repr(e)[:200]}]).encode())
            except Exception:
                pass
        finally:
            os._exit(0)
    os.close(w)
    data = b""
    deadline = time.time() + timeout_s + 1.0
    verdict, env = "unknown", None
    try:
        while True:
            left = deadline - time.time()
            if left <= 0:
                break
            ready, _, _ = select.select([r], [], [], left)
            if not ready:
                break
            chunk = os.read(r, 1 << 16)
            if not chunk:
                break
            data += chunk
        if data:
            res, e = json.loads(data.decode())
            verdict = res
            env = {k: Fraction(v) for k, v in e.items() if not k.startswith("_")} if res == "sat" else None
    except Exception:
        verdict, env = "unknown", None
    finally:
        os.close(r)
        try:
            os.kill(pid, 9)
        except ProcessLookupError:
            pass
        try:
            os.waitpid(pid, 0)
        except ChildProcessError:
            pass
    return verdict, env


WALL_S = float(os.environ.get("SYMSIG_WALL_S", "300"))


def decide(pc, obl, rlimit=None, timeout_ms=None):
    """pc: list of B (path condition); obl: B that must hold.  returns (verdict, env, secs)
    verdict: 'unsat' (obligation holds for every value on this path), 'sat', 'unknown'"""
    STATS["queries"] += 1
    neg = B.not_(obl)
    if neg.k == "c":
        if not neg.a:
            STATS["trivial"] += 1
            STATS["unsat"] += 1
            return "unsat", None, 0.0
    t = time.time()
    if _abstract_unsat(pc, neg):
        dt = time.time() - t
        STATS["time"] += dt
        STATS["unsat"] += 1
        STATS["abstract_unsat"] = STATS.get("abstract_unsat", 0) + 1
        return "unsat", None, dt
    names = set()
    for b in list(pc) + [neg]:
        names |= {A.var_name(v) for v in b.vars()}
    r, env = hard_query([b.z3() for b in pc] + [neg.z3()], sorted(names), (timeout_ms / 1000.0) if timeout_ms else WALL_S, rlimit or RLIMIT)
    dt = time.time() - t
    STATS["time"] += dt
    STATS[r] = STATS.get(r, 0) + 1
    return r, env, dt


def _abs_atom(b, table):
    """z3 term of atom b with every distinct non-constant polynomial shape h (leading coefficient 1) replaced by an opaque real variable:
    p - q = c0 + a*h  ->  c0 + a*v_h.  Forgetting the relations between different polynomials only ADDS models, so unsat is sound."""
    op, p, q = b.a
    d = p - q
    c0 = d.t.get((), Fraction(0))
    h = A.Poly({m: c for m, c in d.t.items() if m})
    if not h.t:
        e = z3.RealVal(0)
        a = Fraction(0)
    else:
        nv = len(A._names)
        lead = h.t[max(h.t, key=lambda m: A._MKey(m, nv))]
        hn = h.scale(1 / lead)
        k = hn.key()
        v = table.get(k)
        if v is None:
            v = table[k] = z3.Real("abs!%d" % len(table))
        e = z3.Q(lead.numerator, lead.denominator) * v
    e = e + z3.Q(c0.numerator, c0.denominator)
    return {"<": e < 0, "<=": e <= 0, "==": e == 0, "!=": e != 0}[op]


def _abs_b(b, table):
    k = b.k
    if k == "c":
        return z3.BoolVal(b.a)
    if k == "p":
        return _abs_atom(b, table)
    if k == "and":
        return z3.And([_abs_b(x, table) for x in b.a])
    if k == "or":
        return z3.Or([_abs_b(x, table) for x in b.a])
    return z3.Not(_abs_b(b.a, table))


def _abstract_unsat(pc, neg):
    """cheap first stage (linear arithmetic over opaque polynomial shapes + the boolean structure)"""
    try:
        table = {}
        sv = z3.Solver()
        sv.set("timeout", 5000)
        for b in pc:
            sv.add(_abs_b(b, table))
        sv.add(_abs_b(neg, table))
        return str(sv.check()) == "unsat"
    except Exception:
        return False


def smt2_script(pc, obl):
    neg = B.not_(obl)
    vs = set()
    for b in list(pc) + [neg]:
        vs |= b.vars()
    lines = ["(set-logic QF_NRA)"]
    for v in sorted(vs):
        lines.append("(declare-const |%s| Real)" % A.var_name(v))
    for b in pc:
        lines.append("(assert %s)" % b.smt2())
    lines.append("(assert %s)" % neg.smt2())
    lines.append("(check-sat)")
    return "\n".join(lines) + "\n"


def cvc5_decide(script, timeout_ms=60000):
    """re-decide an exported obligation with the cvc5 wheel in a forked child that is killed after the time limit (cvc5's own limit is not
    honoured inside long polynomial operations); returns 'sat'/'unsat'/'unknown'/'timeout'"""
    import select
    r, w = os.pipe()
    pid = os.fork()
    if pid == 0:
        try:
            os.close(r)
            os.write(w, str(_cvc5_decide_inproc(script, timeout_ms)).encode())
        except BaseException:   # noqa
            pass
        finally:
            os._exit(0)
    os.close(w)
    out = "timeout"
    try:
        ready, _, _ = select.select([r], [], [], timeout_ms / 1000.0 + 2)
        if ready:
            data = os.read(r, 4096).decode()
            out = data or "unknown"
    finally:
        os.close(r)
        try:
            os.kill(pid, 9)
        except ProcessLookupError:
            pass
        try:
            os.waitpid(pid, 0)
        except ChildProcessError:
            pass
    return out


def _cvc5_decide_inproc(script, timeout_ms=60000):
    try:
        import cvc5
    except ImportError:
        return "unavailable"
    slv = cvc5.Solver()
    slv.setOption("tlimit-per", str(timeout_ms))
    try:
        parser = cvc5.InputParser(slv)
        parser.setStringInput(cvc5.InputLanguage.SMT_LIB_2_6, script, "obl")
        sm = parser.getSymbolManager()
        res = None
        while True:
            cmd = parser.nextCommand()
            if cmd.isNull():
                break
            out = cmd.invoke(slv, sm)
            if "sat" in str(out) or "unknown" in str(out):
                res = str(out).strip()
        return res or "unknown"
    except Exception as e:   # noqa
        return "error:%s" % (str(e)[:100])


# --------------------------------------------------------------------------- monomial relaxation

def _relax_poly(p, box, mvars, bounds):
    """linear z3 term for Poly p with every non-linear monomial replaced by a bounded fresh variable"""
    terms = []
    for m, c in sorted(p.t.items()):
        cz = z3.Q(c.numerator, c.denominator)
        if not m:
            terms.append(cz)
            continue
        if len(m) == 1 and m[0][1] == 1:
            terms.append(cz * A.zvar(m[0][0]))
            continue
        mv = mvars.get(m)
        if mv is None:
            mv = z3.Real("mono!%d" % len(mvars))
            mvars[m] = mv
            if all(v in box for v, _ in m):
                hi = Fraction(1)
                for v, k in m:
                    hi *= Fraction(box[v]) ** k
                lo = Fraction(0) if all(k % 2 == 0 for _, k in m) else -hi
                bounds.append(mv <= z3.Q(hi.numerator, hi.denominator))
                bounds.append(mv >= z3.Q(lo.numerator, lo.denominator))
        terms.append(cz * mv)
    return z3.Sum(terms) if terms else z3.RealVal(0)


def _relax_b(b, box, mvars, bounds):
    k = b.k
    if k == "c":
        return z3.BoolVal(b.a)
    if k == "p":
        op, p, q = b.a
        e = _relax_poly(p, box, mvars, bounds)
        f = _relax_poly(q, box, mvars, bounds)
        return {"<": e < f, "<=": e <= f, "==": e == f, "!=": e != f}[op]
    if k == "and":
        return z3.And([_relax_b(x, box, mvars, bounds) for x in b.a])
    if k == "or":
        return z3.Or([_relax_b(x, box, mvars, bounds) for x in b.a])
    return z3.Not(_relax_b(b.a, box, mvars, bounds))


def _box_from_pc(pc):
    """variable -> symmetric bound c for atoms  v <= c and -v <= c  found in the path condition"""
    up, lo = {}, {}
    for b in pc:
        if b.k != "p":
            continue
        op, p, q = b.a
        if op not in ("<=", "<"):
            continue
        d = p - q     # d <= 0
        ms = [m for m in d.t if m]
        if len(ms) != 1 or len(ms[0]) != 1 or ms[0][0][1] != 1:
            continue
        v = ms[0][0][0]
        a = d.t[ms[0]]
        c = -d.t.get((), Fraction(0)) / a     # a v + c0 <= 0
        if a > 0:
            up[v] = min(up.get(v, c), c)      # v <= c
        else:
            lo[v] = max(lo.get(v, c), c)      # v >= c
    box = {}
    for v in up:
        if v in lo:
            box[v] = max(abs(up[v]), abs(lo[v]))
    return box


def decide_relaxed(pc, obl, rlimit=None, timeout_ms=None):
    """sound linear relaxation first (each non-linear monomial -> fresh variable bounded by the box the
    path condition puts on its factors): unsat there implies unsat of the exact query.  Otherwise the exact
    query decides (and provides the model)."""
    neg = B.not_(obl)
    if neg.k == "c":
        return decide(pc, obl, rlimit, timeout_ms)
    t = time.time()
    box = _box_from_pc(pc)
    mvars, bounds = {}, []
    s = z3.Solver()
    s.set("timeout", timeout_ms or TIMEOUT_MS)
    for b in pc:
        s.add(_relax_b(b, box, mvars, bounds))
    s.add(_relax_b(neg, box, mvars, bounds))
    for c in bounds:
        s.add(c)
    r = str(s.check())
    dt = time.time() - t
    if r == "unsat":
        STATS["queries"] += 1
        STATS["unsat"] += 1
        STATS["relaxed_unsat"] = STATS.get("relaxed_unsat", 0) + 1
        STATS["time"] += dt
        return "unsat", None, dt
    v, env, dt2 = decide(pc, obl, rlimit, timeout_ms)
    return v, env, dt + dt2
