"""The symbolic NumPy environment: the complete list of entry points replaced in the harness process
so that the *real* sigpy code can run on object arrays of SymK.  Each replacement falls through to
the original for non-object inputs.  STUBS is copied into every evidence file."""
import os
os.environ.setdefault("NUMBA_DISABLE_JIT", "1")
import builtins
from fractions import Fraction

import numpy as np
import scipy.signal as _signal

from . import scalar as S
from .scalar import SymK, SymBool, Rat, R0, R1, Unsupported

STUBS = [
    "np.fft.fftn/ifftn/fft/ifft on object arrays -> exact DFT over Q(zeta_N) (NumPy s/axes/norm semantics)",
    "scipy.signal.convolve/correlate on object arrays -> direct definition (validated against SciPy at start-up)",
    "np.vdot, np.linalg.norm, np.real/imag/angle, np.isscalar, np.issubdtype(object, complexfloating) -> definitions on SymK",
    "thresh._soft_thresh/_hard_thresh (nb.vectorize) -> np.frompyfunc of the DUFunc's own py_func",
    "range inside sigpy.interp accepts integral floats (numba semantics); NUMBA_DISABLE_JIT=1 runs @nb.jit kernels as Python",
    "np.angle(z) on symbolic z -> fresh theta with cos(theta)|z| = Re z, sin(theta)|z| = Im z; np.isinf/np.isnan of symbolic values -> False; np.finfo(object) -> finfo(float64)",
    "sigpy.util.randn(dtype=object) -> float64 start vector (MaxEig on symbolic problems)",
    "reals for floats: float constants taken at their exact rational value; rounding outside the claim",
]

_installed = False
_orig = {}


def _isobj(a):
    return isinstance(a, np.ndarray) and a.dtype == object


def _anysym(a):
    return isinstance(a, (SymK, SymBool)) or _isobj(a)


# ------------------------------------------------------------------ exact DFT

def _dft1(a, axis, inverse, norm):
    F = S.FIELD
    n = a.shape[axis]
    a = np.moveaxis(a, axis, 0)
    out = np.empty(a.shape, dtype=object)
    sgn = 1 if inverse else -1
    if n > 1 and F.N % n != 0:
        raise Unsupported("field Q(zeta_%d) lacks %d-th roots of unity" % (F.N, n))
    if norm == "ortho":
        sq = F.sqrt_int(n)
        scale = SymK.constvec([c / n for c in sq])
    elif norm is None or norm == "backward":
        scale = SymK.real_(Rat.const(Fraction(1, n))) if inverse else None
    elif norm == "forward":
        scale = None if inverse else SymK.real_(Rat.const(Fraction(1, n)))
    else:
        raise ValueError("Invalid norm value %r" % (norm,))
    tw = [SymK.constvec(F.zeta(sgn * k % n, n)) if n > 1 else SymK.real_(R1) for k in range(n)]
    rest = a.shape[1:]
    for k in range(n):
        for idx in np.ndindex(*rest):
            acc = SymK.real_(R0)
            for j in range(n):
                v = SymK.lift(a[(j,) + idx])
                t = (j * k) % n
                acc = acc + (v if t == 0 else v * tw[t])
            out[(k,) + idx] = acc if scale is None else acc * scale
    return np.moveaxis(out, 0, axis)


def _fftn_obj(a, s, axes, norm, inverse):
    a = np.asarray(a, dtype=object)
    if axes is None:
        axes = list(range(a.ndim)) if s is None else list(range(-len(s), 0))
    else:
        axes = list(axes)
    for ax in axes:
        if not -a.ndim <= ax < a.ndim:
            raise np.exceptions.AxisError(ax, a.ndim) if hasattr(np, "exceptions") else IndexError(ax)
    if s is not None:
        for ax, n in zip(axes, s):
            curlen = a.shape[ax]
            if n < curlen:
                a = np.take(a, range(n), axis=ax)
            elif n > curlen:
                pad = [(0, 0)] * a.ndim
                pad[ax] = (0, n - curlen)
                a = np.pad(a, pad, constant_values=0)
    for ax in axes:
        a = _dft1(a, ax, inverse, norm)
    return a


# ------------------------------------------------------------------ convolution definition

def _full_conv(a, b):
    out = np.zeros([m + n - 1 for m, n in zip(a.shape, b.shape)], dtype=object)
    for i in np.ndindex(*a.shape):
        for j in np.ndindex(*b.shape):
            k = tuple(p + q for p, q in zip(i, j))
            out[k] = out[k] + a[i] * b[j]
    return out


def _convolve(a, b, mode="full", method="auto"):
    if not (_isobj(a) or _isobj(b)):
        return _orig["convolve"](a, b, mode=mode, method=method)
    a = np.asarray(a, dtype=object)
    b = np.asarray(b, dtype=object)
    if a.ndim != b.ndim:
        raise ValueError("volume and kernel should have the same dimensionality")
    full = _full_conv(a, b)
    if mode == "full":
        return full
    if mode == "valid":
        ok1 = all(m >= n for m, n in zip(a.shape, b.shape))
        ok2 = all(n >= m for m, n in zip(a.shape, b.shape))
        if not (ok1 or ok2):
            raise ValueError("For 'valid' mode, one must be at least as large as the other in every dimension")
        slc = tuple(slice(min(m, n) - 1, max(m, n)) for m, n in zip(a.shape, b.shape))
        return full[slc]
    if mode == "same":
        slc = tuple(slice((n - 1) // 2, (n - 1) // 2 + m) for m, n in zip(a.shape, b.shape))
        return full[slc]
    raise ValueError("acceptable mode flags are 'valid', 'same', or 'full'")


def _correlate(a, b, mode="full", method="auto"):
    if not (_isobj(a) or _isobj(b)):
        return _orig["correlate"](a, b, mode=mode, method=method)
    b = np.asarray(b, dtype=object)
    rb = np.conj(b[tuple(slice(None, None, -1) for _ in b.shape)])
    return _convolve(np.asarray(a, dtype=object), rb, mode=mode)


def validate_conv_stub(seed=0):
    rng = np.random.default_rng(seed)
    for sa, sb in [((3, 4), (2, 2)), ((2, 2), (3, 4)), ((5,), (3,)), ((2, 3, 4), (2, 2, 2)), ((3,), (3,))]:
        a = rng.integers(-3, 4, size=sa) + 1j * rng.integers(-3, 4, size=sa)
        b = rng.integers(-3, 4, size=sb) + 1j * rng.integers(-3, 4, size=sb)
        for mode in ("full", "valid"):
            for orig, stub in ((_orig["convolve"], _convolve), (_orig["correlate"], _correlate)):
                r1 = orig(a, b, mode=mode)
                r2 = stub(S.lift_array(a), S.lift_array(b), mode=mode)
                r2 = np.array([complex(v) for v in r2.ravel()]).reshape(r2.shape)
                if r1.shape != r2.shape or not np.allclose(r1, r2):
                    raise RuntimeError("convolution stub disagrees with SciPy for %s %s %s" % (sa, sb, mode))
    return True


# ------------------------------------------------------------------ install

def install():
    global _installed
    if _installed:
        return
    _installed = True
    import sigpy  # noqa: import sigpy/numba before any numpy entry point is replaced
    import sigpy.mri  # noqa
    import sigpy.mri.rf  # noqa

    _orig.update(fftn=np.fft.fftn, ifftn=np.fft.ifftn, fft=np.fft.fft, ifft=np.fft.ifft,
                 convolve=_signal.convolve, correlate=_signal.correlate, vdot=np.vdot,
                 norm=np.linalg.norm, real=np.real, imag=np.imag, isscalar=np.isscalar,
                 issubdtype=np.issubdtype, angle=np.angle, iscomplexobj=np.iscomplexobj)

    def fftn(a, s=None, axes=None, norm=None, **kw):
        if _isobj(a):
            return _fftn_obj(a, s, axes, norm, False)
        return _orig["fftn"](a, s=s, axes=axes, norm=norm, **kw)

    def ifftn(a, s=None, axes=None, norm=None, **kw):
        if _isobj(a):
            return _fftn_obj(a, s, axes, norm, True)
        return _orig["ifftn"](a, s=s, axes=axes, norm=norm, **kw)

    def fft(a, n=None, axis=-1, norm=None, **kw):
        if _isobj(a):
            return _fftn_obj(a, None if n is None else [n], [axis], norm, False)
        return _orig["fft"](a, n=n, axis=axis, norm=norm, **kw)

    def ifft(a, n=None, axis=-1, norm=None, **kw):
        if _isobj(a):
            return _fftn_obj(a, None if n is None else [n], [axis], norm, True)
        return _orig["ifft"](a, n=n, axis=axis, norm=norm, **kw)

    np.fft.fftn, np.fft.ifftn, np.fft.fft, np.fft.ifft = fftn, ifftn, fft, ifft
    _signal.convolve, _signal.correlate = _convolve, _correlate
    import scipy
    scipy.signal.convolve, scipy.signal.correlate = _convolve, _correlate

    def vdot(a, b, *args, **kw):
        if _anysym(a) or _anysym(b):
            s = SymK.real_(R0)
            for x, y in zip(np.asarray(a, dtype=object).ravel(), np.asarray(b, dtype=object).ravel()):
                s = s + SymK.lift(x).conjugate() * SymK.lift(y)
            return s
        return _orig["vdot"](a, b, *args, **kw)
    np.vdot = vdot

    def norm(x, ord=None, axis=None, keepdims=False):
        if _anysym(x):
            x = np.asarray(x, dtype=object)
            if axis is not None or keepdims:
                raise Unsupported("np.linalg.norm with axis on symbolic arrays")
            if ord is None or ord == 2 or ord == "fro":
                s = SymK.real_(R0)
                for v in x.ravel():
                    s = s + SymK.lift(v).abs2()
                return s.sqrt()
            if ord == 1:
                s = SymK.real_(R0)
                for v in x.ravel():
                    s = s + abs(SymK.lift(v))
                return s
            raise Unsupported("np.linalg.norm ord=%r" % (ord,))
        return _orig["norm"](x, ord=ord, axis=axis, keepdims=keepdims)
    np.linalg.norm = norm

    def real(x):
        if isinstance(x, SymK):
            return x.real
        if _isobj(x):
            out = np.empty(x.shape, dtype=object)
            for i in np.ndindex(*x.shape):
                out[i] = SymK.lift(x[i]).real
            return out
        return _orig["real"](x)
    np.real = real

    def imag(x):
        if isinstance(x, SymK):
            return x.imag
        if _isobj(x):
            out = np.empty(x.shape, dtype=object)
            for i in np.ndindex(*x.shape):
                out[i] = SymK.lift(x[i]).imag
            return out
        return _orig["imag"](x)
    np.imag = imag

    def angle(x, deg=False):
        if isinstance(x, SymK) and not deg:
            return x.angle()
        if _isobj(x) and not deg:
            out = np.empty(x.shape, dtype=object)
            for i in np.ndindex(*x.shape):
                out[i] = SymK.lift(x[i]).angle()
            return out
        return _orig["angle"](x, deg=deg)
    np.angle = angle

    _orig["isinf"], _orig["isnan"] = np.isinf, np.isnan

    def _finite_pred(name):
        def f(x, *a, **k):
            if isinstance(x, SymK):
                return False
            if _isobj(x):
                out = np.zeros(x.shape, dtype=bool)
                for i in np.ndindex(*x.shape):
                    if not isinstance(x[i], SymK):
                        out[i] = bool(_orig[name](x[i]))
                return out
            return _orig[name](x, *a, **k)
        return f
    np.isinf, np.isnan = _finite_pred("isinf"), _finite_pred("isnan")

    _orig["finfo"] = np.finfo

    class _FinfoProxy:
        """np.finfo(object dtype) -> finfo(float64): symbolic arrays stand for double precision data"""
        def __call__(self, dtype):
            try:
                if dtype == object or (isinstance(dtype, np.dtype) and dtype == np.dtype(object)):
                    dtype = np.float64
            except Exception:
                pass
            return _orig["finfo"](dtype)

        def __getattr__(self, k):
            return getattr(_orig["finfo"], k)
    np.finfo = _FinfoProxy()

    def isscalar(x):
        return isinstance(x, SymK) or _orig["isscalar"](x)
    np.isscalar = isscalar

    def issubdtype(a, b):
        try:
            if a == object and b is np.complexfloating:
                return True
        except Exception:
            pass
        return _orig["issubdtype"](a, b)
    np.issubdtype = issubdtype

    def iscomplexobj(x):
        if _isobj(x):
            return True
        return _orig["iscomplexobj"](x)
    np.iscomplexobj = iscomplexobj

    # unary transcendental ufuncs on object arrays: SymK methods, plain numbers via cmath/math
    import cmath
    import math

    def _wrap_unary(name, realf, cplxf):
        orig = getattr(np, name)
        _orig[name] = orig

        def elem(v):
            if isinstance(v, SymK):
                m = getattr(v, name, None)
                if m is None:
                    if v.is_const():
                        return SymK.lift(elem(v.cvalue() if not v.is_real() else v.cvalue().real))
                    raise Unsupported("np.%s of a symbolic value" % name)
                return m()
            if isinstance(v, complex):
                return cplxf(v)
            return realf(float(v))

        def f(x, *args, **kw):
            if isinstance(x, SymK):
                return elem(x)
            if _isobj(x) and not args and not kw:
                out = np.empty(x.shape, dtype=object)
                for i in np.ndindex(*x.shape):
                    out[i] = elem(x[i])
                return out
            return orig(x, *args, **kw)
        setattr(np, name, f)

    def _rsqrt(v):
        return math.sqrt(v) if v >= 0 else float("nan")
    for nm, rf, cf in (("sqrt", _rsqrt, cmath.sqrt), ("exp", math.exp, cmath.exp), ("sin", math.sin, cmath.sin),
                       ("cos", math.cos, cmath.cos), ("sinh", math.sinh, cmath.sinh), ("cosh", math.cosh, cmath.cosh),
                       ("tanh", math.tanh, cmath.tanh), ("log", math.log, cmath.log), ("arctan", math.atan, cmath.atan)):
        _wrap_unary(nm, rf, cf)

    # sigpy specific
    import sigpy  # noqa
    from sigpy import thresh, interp
    for name in ("_soft_thresh", "_hard_thresh"):
        fn = getattr(thresh, name)
        pf = fn._dispatcher.py_func if hasattr(fn, "_dispatcher") else getattr(fn, "py_func", fn)
        _orig[name] = fn
        setattr(thresh, name, _mixed_ufunc(fn, np.frompyfunc(pf, 2, 1)))

    from sigpy import util as _util
    _randn = _util.randn
    _orig["randn"] = _randn

    def randn(shape, scale=1, dtype=np.float64, device=None, **kw):
        # MaxEig(dtype=x.dtype) with symbolic (object) x: the random start vector is an ordinary float vector
        if dtype == object:
            dtype = np.float64
        if device is None:
            return _randn(shape, scale=scale, dtype=dtype, **kw)
        return _randn(shape, scale=scale, dtype=dtype, device=device, **kw)
    _util.randn = randn
    import sigpy as _sp
    if getattr(_sp, "randn", None) is _randn:
        _sp.randn = randn

    _range = builtins.range

    def frange(*args):
        conv = []
        for a in args:
            if isinstance(a, (float, np.floating)):
                if float(a) != int(a):
                    raise Unsupported("range() with non-integral float")
                a = int(a)
            conv.append(a)
        return _range(*conv)
    interp.range = frange
    validate_conv_stub()


def _mixed_ufunc(orig, pyf):
    def f(*args):
        if any(_anysym(a) for a in args):
            r = pyf(*args)
            return r
        return orig(*args)
    f._dispatcher = getattr(orig, "_dispatcher", None)
    return f
