#!/usr/bin/env python3
"""Regenerates MANIFEST.json from the table below (kept valid at all times)."""
import json, os
HERE = os.path.dirname(os.path.abspath(__file__))
BASE = "cd /repo && /venv/bin/python -m pytest -ra -q -p no:cacheprovider --timeout=900 --continue-on-collection-errors"
TECH = "bounded symbolic execution of the real sigpy code on object arrays of exact symbolic scalars; z3 decides each path's obligations; counterexamples replayed on the float code"
CLAIMED = json.load(open(os.path.join(HERE, "claims.json")))
NA = json.load(open(os.path.join(HERE, "not_applicable.json")))
checks = []
for pid, c in sorted(CLAIMED.items()):
    checks.append({
        "property_id": pid,
        "quick_cmd": "./check %s --tier quick" % pid,
        "thorough_cmd": "./check %s --tier thorough" % pid,
        "evidence_file": "evidence/%s.json" % pid,
        "replay_cmd_template": "./check %s --replay {path}" % pid,
        "engine": "symsig",
        "level_claimed": {"category": "other", "text": c["text"], "design_ref": c.get("design_ref", "DESIGN.md section 4")},
        "level_note": c["note"],
        "technique": c.get("technique", TECH),
    })
m = {
    "version": 1,
    "setup_cmd": "./setup.sh",
    "hooks": {"guard": "SIGPY_VERIF", "enable": "no source hooks are needed: checks import sigpy from /repo's working tree (editable install) with NUMBA_DISABLE_JIT=1 in the harness process only",
              "baseline_off_cmd": BASE, "source_commits": [], "add_only": True},
    "engines": [{"name": "symsig", "path": "symsig/", "serves_properties": sorted(CLAIMED),
                 "kind_free_text": "symbolic execution of the real NumPy code (object arrays of exact polynomial/rational/cyclotomic scalars, path forking) + z3 (QF_NRA) per path; CrossHair for integer shape helpers; cvc5 cross-check"}],
    "checks": checks,
    "not_applicable": NA,
    "notes": "Exit codes of ./check: 0 held (KNOWN-FINDING lines allowed), 1 VIOLATION (reproduced on the float code), 2 inconclusive, 3 harness error. Bounds per property are in evidence/<id>.json and DESIGN.md.",
}
json.dump(m, open(os.path.join(HERE, "MANIFEST.json"), "w"), indent=1)
try:
    import jsonschema
    jsonschema.validate(m, json.load(open("/root/.vp/MANIFEST.schema.json")))
    print("MANIFEST.json valid,", len(checks), "checks,", len(NA), "not applicable")
except ImportError:
    print("written (jsonschema not available to validate)")
