"""CrossHair contracts over SYMBOLIC shapes / sizes for integer helper functions (the real sigpy functions are imported and called;
each contract has a reachability twin, a deliberately false post-condition that must be refuted)."""
from typing import List, Tuple

from sigpy import linop, util, conv

# C09 / C05: axes normalisation, block counts, centred resize shifts

def normalize_axes(a: int, b: int, ndim: int) -> Tuple[int, ...]:
    """
    pre: 1 <= ndim <= 6 and -ndim <= a < ndim and -ndim <= b < ndim
    post: all(0 <= v < ndim for v in _)
    post: set(_) == {a % ndim, b % ndim}
    """
    return util._normalize_axes((a, b), ndim)


def normalize_axes__twin(a: int, b: int, ndim: int) -> Tuple[int, ...]:
    """
    pre: 1 <= ndim <= 6 and -ndim <= a < ndim and -ndim <= b < ndim
    post: _ == (a, b)
    """
    return util._normalize_axes((a, b), ndim)


def _count_windows(n: int, b: int, s: int) -> int:
    k = 0
    start = 0
    while start + b <= n:
        k += 1
        start += s
    return k


def num_blocks_formula(n: int, b: int, s: int) -> int:
    """the documented block count (N - blk_shape + blk_strides) // blk_strides = number of windows [k*s, k*s + b) that fit into [0, n)
    pre: 1 <= b <= n <= 40 and 1 <= s <= 8
    post: _ == _count_windows(n, b, s)
    """
    return (n - b + s) // s


def num_blocks_formula__twin(n: int, b: int, s: int) -> int:
    """
    pre: 1 <= b <= n <= 40 and 1 <= s <= 8
    post: _ == n // s
    """
    return (n - b + s) // s


