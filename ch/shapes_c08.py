"""CrossHair contracts over SYMBOLIC shapes / sizes for integer helper functions (the real sigpy functions are imported and called;
each contract has a reachability twin, a deliberately false post-condition that must be refuted)."""
from typing import List, Tuple

from sigpy import linop, util, conv

# C08: output-length formulas of _get_convolve_params

def conv_full_length(m: int, n: int, s: int) -> int:
    """
    pre: 1 <= m <= 40 and 1 <= n <= 40 and 1 <= s <= 8
    post: _ == len(range(0, m + n - 1, s))
    """
    return conv._get_convolve_params((m,), (n,), "full", (s,), False)[-1][0]


def conv_valid_length(m: int, n: int, s: int) -> int:
    """
    pre: 1 <= m <= 40 and 1 <= n <= 40 and 1 <= s <= 8
    post: _ == len(range(0, max(m, n) - min(m, n) + 1, s))
    """
    return conv._get_convolve_params((m,), (n,), "valid", (s,), False)[-1][0]


def conv_valid_length__twin(m: int, n: int, s: int) -> int:
    """
    pre: 1 <= m <= 40 and 1 <= n <= 40 and 1 <= s <= 8
    post: _ == len(range(0, m - n + 1, s))
    """
    return conv._get_convolve_params((m,), (n,), "valid", (s,), False)[-1][0]


def conv_valid_mixed_rejected(m0: int, m1: int, n0: int, n1: int) -> bool:
    """valid mode needs one operand at least as large as the other in EVERY axis
    pre: 1 <= m0 <= 8 and 1 <= m1 <= 8 and 1 <= n0 <= 8 and 1 <= n1 <= 8
    pre: (m0 > n0 and m1 < n1) or (m0 < n0 and m1 > n1)
    post: _ is True
    """
    try:
        conv._get_convolve_params((m0, m1), (n0, n1), "valid", None, False)
    except ValueError:
        return True
    return False
