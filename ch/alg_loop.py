"""CrossHair contracts for C15: the canonical loop around the real sigpy.alg.Alg.update/done performs exactly max_iter
updates, each advancing iter by one (max_iter symbolic int)."""
from sigpy.alg import Alg


class _Count(Alg):
    def __init__(self, max_iter):
        super().__init__(max_iter)
        self.n = 0

    def _update(self):
        self.n += 1


def loop_updates(max_iter: int) -> int:
    """
    pre: 0 <= max_iter <= 12
    post: _ == max_iter
    """
    a = _Count(max_iter)
    while not a.done():
        before = a.iter
        a.update()
        assert a.iter == before + 1
    assert a.iter == a.n
    return a.n


def loop_updates__twin(max_iter: int) -> int:
    """
    pre: 0 <= max_iter <= 12
    post: _ == 0
    """
    a = _Count(max_iter)
    while not a.done():
        a.update()
    return a.n


def interleaved_done_calls(max_iter: int, extra: int) -> int:
    """
    pre: 0 <= max_iter <= 8 and 0 <= extra <= 3
    post: _ == max_iter
    """
    a = _Count(max_iter)
    k = 0
    while True:
        for _ in range(extra):      # done() has no side effect however often it is called
            a.done()
        if a.done():
            break
        a.update()
        k += 1
    return k


def interleaved_done_calls__twin(max_iter: int, extra: int) -> int:
    """
    pre: 0 <= max_iter <= 8 and 0 <= extra <= 3
    post: _ == max_iter + extra
    """
    a = _Count(max_iter)
    k = 0
    while not a.done():
        a.update()
        k += 1
    return k
