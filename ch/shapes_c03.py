"""CrossHair contracts over SYMBOLIC shapes / sizes for integer helper functions (the real sigpy functions are imported and called;
each contract has a reachability twin, a deliberately false post-condition that must be refuted)."""
from typing import List, Tuple

from sigpy import linop, util, conv

# C03: stack shape / split-index bookkeeping

def hstack_two(a0: int, a1: int, b0: int, b1: int, axis: int) -> Tuple[List[int], List[int]]:
    """
    pre: 1 <= a0 <= 6 and 1 <= a1 <= 6 and 1 <= b0 <= 6 and 1 <= b1 <= 6
    pre: -2 <= axis < 2
    pre: (a1 == b1) if axis % 2 == 0 else (a0 == b0)
    post: _[0] == ([a0 + b0, a1] if axis % 2 == 0 else [a0, a1 + b1])
    post: _[1] == [a0 if axis % 2 == 0 else a1]
    """
    return linop._hstack_params([[a0, a1], [b0, b1]], axis)


def hstack_two__twin(a0: int, a1: int, b0: int, b1: int, axis: int) -> Tuple[List[int], List[int]]:
    """
    pre: 1 <= a0 <= 6 and 1 <= a1 <= 6 and 1 <= b0 <= 6 and 1 <= b1 <= 6
    pre: -2 <= axis < 2
    pre: (a1 == b1) if axis % 2 == 0 else (a0 == b0)
    post: _[0] == [a0, a1]
    """
    return linop._hstack_params([[a0, a1], [b0, b1]], axis)


def vstack_three(a: int, b: int, c: int, n: int, axis: int) -> Tuple[List[int], List[int]]:
    """
    pre: 1 <= a <= 5 and 1 <= b <= 5 and 1 <= c <= 5 and 1 <= n <= 5
    pre: axis == 0 or axis == -2
    post: _[0] == [a + b + c, n]
    post: _[1] == [a, a + b]
    """
    return linop._vstack_params([[a, n], [b, n], [c, n]], axis)


def vstack_three__twin(a: int, b: int, c: int, n: int, axis: int) -> Tuple[List[int], List[int]]:
    """
    pre: 1 <= a <= 5 and 1 <= b <= 5 and 1 <= c <= 5 and 1 <= n <= 5
    pre: axis == 0 or axis == -2
    post: _[1] == [a, b]
    """
    return linop._vstack_params([[a, n], [b, n], [c, n]], axis)


def stack_flat(a0: int, b0: int) -> Tuple[List[int], List[int]]:
    """axis None: operands are flattened (second dimension fixed to 3 to keep the size product linear)
    pre: 1 <= a0 <= 6 and 1 <= b0 <= 8
    post: _[0] == [a0 * 3 + b0]
    post: _[1] == [a0 * 3]
    """
    return linop._hstack_params([[a0, 3], [b0]], None)


def stack_mismatch_rejected(a0: int, a1: int, b0: int, b1: int) -> bool:
    """
    pre: 1 <= a0 <= 6 and 1 <= a1 <= 6 and 1 <= b0 <= 6 and 1 <= b1 <= 6 and a1 != b1
    post: _ is True
    """
    try:
        linop._vstack_params([[a0, a1], [b0, b1]], 0)
    except Exception:
        return True
    return False


