"""C07 - interpolate/gridding implement the documented kernel sums."""
import itertools
import math
from fractions import Fraction

import numpy as np

from symsig import oracle as O
from symsig import scalar as S

PROPERTY = "C07"
FUNCTIONS = ["sigpy.interp.interpolate", "sigpy.interp.gridding", "sigpy.interp._interpolate1/2/3 and _gridding1/2/3 (numba kernels run as Python)",
             "sigpy.interp._spline_kernel (symbolic argument vs documented pieces)",
             "sigpy.interp._kaiser_bessel_kernel (symbolic argument: support incl. end points, >= 1 on it, even, <= I0(beta); values called in the sum oracle)"]
BOUNDS = {"quick": "concrete coordinate sets (fractional, integer, half-integer ties, negative, far outside, duplicates) x kernels spline 0/1/2, "
                   "kaiser_bessel x widths {1,1.5,2,3,4} and per-axis widths/params, 1-3 dims, batch axes, grid lengths 1..4, data symbolic; "
                   "symbolic coordinates: 1-D, 1 point, grid 3, k in [-4, 7], widths {1, 2, 3}, spline 0/1/2",
          "thorough": "adds symbolic coordinates with 2 points (1-D) and 1 point in 2-D (k in [-1.5, n+0.5]), fractional widths"}
OUTSIDE = ["the Kaiser-Bessel body vs the true I0 (polynomial approximation of a transcendental function): the oracle calls the same kernel function",
           "symbolic coordinates in 3-D / more than 2 points", "GPU kernels"]
ASSUMPTIONS = ["numba compiles the kernels' Python source faithfully (NUMBA_DISABLE_JIT=1; range() accepts integral floats as in numba)",
               "data arbitrary complex; for concrete coordinates the comparison carries a 1e-9 absolute tolerance over the unit box because the oracle "
               "uses exact rational arithmetic for window bounds/weights while the code uses floats"]
EXPLANATION = ("C07: output_j = sum over integer grid indices i with |i - k_j|_inf <= W/2 of prod_d K((i_d - k_d)/(W_d/2)) x[i mod n] "
               "(independent oracle over a generous index range), gridding = transpose with accumulation.")


def _K(kernel, u, param):
    """documented kernel; u may be Fraction/float or SymK (real)"""
    if kernel == "kaiser_bessel":
        from sigpy import interp
        return interp._kaiser_bessel_kernel(float(u), float(param))
    sym = isinstance(u, S.SymK)
    au = abs(u)
    if au > 1:
        return 0
    if param == 0:
        return 1
    if param == 1:
        return 1 - au
    if param == 2:
        third = Fraction(1, 3) if not sym else Fraction(1 / 3)   # the code compares with the float 1/3
        if au > (1 / 3 if not sym else S.SymK.lift(1 / 3)):
            return Fraction(9, 8) * (1 - au) ** 2 if not sym else (9 / 8) * (1 - au) ** 2
        return Fraction(3, 4) * (1 - 3 * u * u) if not sym else (3 / 4) * (1 - 3 * u ** 2)
    raise ValueError(param)


def _tolist(v, nd):
    return list(v) if isinstance(v, (list, tuple)) else [v] * nd


def _weights(coord_j, widths, params, kernel, lo, hi):
    """dict: integer index tuple -> weight, for one point; coordinates in sigpy order (last axis = x)"""
    nd = len(coord_j)
    per_axis = []
    for d in range(nd):
        k = coord_j[d]
        W = widths[d]
        ws = {}
        for i in range(lo[d], hi[d] + 1):
            dist = i - k
            half = W / 2
            if isinstance(k, S.SymK):
                inside = bool(abs(dist) <= half)
            else:
                inside = abs(Fraction(dist)) <= Fraction(half)
            if inside:
                ws[i] = _K(kernel, dist / half, params[d])
        per_axis.append(ws)
    out = {}
    for combo in itertools.product(*[list(w.items()) for w in per_axis]):
        idx = tuple(c[0] for c in combo)
        w = 1
        for c in combo:
            w = w * c[1]
        out[idx] = w
    return out


def h_interp(cfg, V):
    from sigpy import interp
    gshape, batch, kernel = cfg["grid"], cfg["batch"], cfg["kernel"]
    nd = len(gshape)
    widths = _tolist(cfg["width"], nd)
    params = _tolist(cfg["param"], nd)
    symc = cfg.get("symcoord")
    npts = cfg["npts"]
    if symc:
        coord = V.array("k", [npts, nd], False)
        lo_k, hi_k = symc
        for j in range(npts):
            for d in range(nd):
                V.assume(coord[j, d] >= lo_k, "coordinate >= %s" % lo_k)
                V.assume(coord[j, d] <= hi_k, "coordinate <= %s" % hi_k)
        lo = [math.floor(lo_k - max(widths) / 2) - 1] * nd
        hi = [math.ceil(hi_k + max(widths) / 2) + 1] * nd
        cl = [[coord[j, d] for d in range(nd)] for j in range(npts)]
    else:
        carr = np.array(cfg["coord"], dtype=np.float64).reshape(npts, nd)
        coord = carr.copy()
        cl = [[Fraction(float(carr[j, d])) for d in range(nd)] for j in range(npts)]
        lo = [math.floor(min(float(c[d]) for c in cl) - max(widths) / 2) - 1 for d in range(nd)]
        hi = [math.ceil(max(float(c[d]) for c in cl) + max(widths) / 2) + 1 for d in range(nd)]
    x = V.array("x", batch + gshape)
    y = V.array("y", batch + [npts])
    if not symc:
        V.box(1)
    wd = cfg["width"] if not isinstance(cfg["width"], list) else tuple(cfg["width"])
    pr = cfg["param"] if not isinstance(cfg["param"], list) else tuple(cfg["param"])
    out_i = interp.interpolate(x, coord, kernel=kernel, width=wd, param=pr)
    out_g = interp.gridding(y, coord, batch + gshape, kernel=kernel, width=wd, param=pr)
    zero = S.SymK.lift(0) if V.symbolic else 0.0
    ref_i = np.empty(batch + [npts], dtype=object if V.symbolic else np.complex128)
    ref_g = np.empty(batch + gshape, dtype=object if V.symbolic else np.complex128)
    for b in np.ndindex(*batch):
        for g in np.ndindex(*gshape):
            ref_g[b + g] = zero
    for j in range(npts):
        W = _weights(cl[j], widths, params, kernel, lo, hi)
        for b in np.ndindex(*batch):
            acc = zero
            for idx, w in W.items():
                g = tuple(i % n for i, n in zip(idx, gshape))
                if not V.symbolic:
                    w = float(w)
                acc = acc + w * x[b + g]
                ref_g[b + g] = ref_g[b + g] + w * y[b + (j,)]
            ref_i[b + (j,)] = acc
    if symc:
        return [("interpolate_kernel_sum", O.eq(out_i, ref_i)), ("gridding_transpose_sum", O.eq(out_g, ref_g))]
    return [("interpolate_kernel_sum~", O.near(out_i, ref_i, 1e-9)), ("gridding_transpose_sum~", O.near(out_g, ref_g, 1e-9)),
            ("shapes", O.const(list(np.shape(out_i)) == batch + [npts] and list(np.shape(out_g)) == batch + gshape))]


def h_kernel(cfg, V):
    """the kernel functions themselves, argument symbolic: spline pieces = documented formulas; Kaiser-Bessel: support [-1, 1] INCLUDING the
    end points (K(+-1) = I0(0) = 1), K >= 1 on the support (I0 >= 1), even, 0 outside"""
    from sigpy import interp
    u = V.scalar("u")
    V.assume(u >= -2, "u >= -2")
    V.assume(u <= 2, "u <= 2")
    kernel, prm = cfg["kernel"], cfg["param"]
    if kernel == "spline":
        got = interp._spline_kernel(u, prm)
        return [("spline_kernel_is_documented_formula", O.eq(got, _K("spline", u, prm) if V.symbolic else float(_K("spline", Fraction(u), prm))))]
    got = interp._kaiser_bessel_kernel(u, prm)
    neg = interp._kaiser_bessel_kernel(-u, prm)
    inside = S.B.and_(O.le(u, 1), O.ge(u, -1)) if V.symbolic else O.const(-1 <= u <= 1)
    obl = [("kb_zero_outside_support", O.implies(O.not_(inside), O.eq(got, 0))),
           ("kb_at_least_one_on_closed_support", O.implies(inside, O.ge(got, 1))),
           ("kb_even", O.eq(got, neg))]
    import scipy.special as sc
    top = float(sc.i0(prm)) * (1 + 1e-6)
    obl.append(("kb_at_most_I0_beta", O.le(got, top)))
    for e in (1.0, -1.0):
        obl.append(("kb_end_point_%+d_is_one" % e, O.const(abs(float(interp._kaiser_bessel_kernel(e, float(prm))) - 1.0) < 1e-12)))
    obl.append(("kb_centre_is_I0_beta", O.const(abs(float(interp._kaiser_bessel_kernel(0.0, float(prm))) / float(sc.i0(prm)) - 1) < 1e-6)))
    return obl


HARNESSES = {"interp": h_interp, "kernel": h_kernel}

C1 = {"frac": [[0.3], [-1.6], [1.25]], "int": [[0.0], [1.0], [-2.0]], "half": [[0.5], [-1.5], [2.5]], "far": [[7.3], [-9.5]], "dup": [[0.25], [0.25]],
      "neg": [[-0.75], [-3.0]]}
C2 = {"fracy": [[0.6, 0.2], [-1.25, 0.5], [1.75, -0.3]], "frac": [[0.3, -0.7], [1.2, 0.4]], "tie": [[0.5, -1.0], [-0.5, 1.5]], "far": [[5.25, -6.5]], "dup": [[0.25, 0.5], [0.25, 0.5]], "int": [[1.0, 0.0]]}
C3 = {"frac": [[0.3, -0.7, 0.2]], "tie": [[0.5, 1.0, -0.5]], "far": [[4.5, -3.25, 6.0]]}
KERN = [("spline", 0), ("spline", 1), ("spline", 2), ("kaiser_bessel", 2.34)]


def configs(tier, seed):
    full = tier == "thorough"
    out = []

    def add(grid, batch, coord, kernel, width, param, tag):
        npts = len(coord)
        out.append({"id": "interp:g=%s:b=%s:%s:%s:w=%s:p=%s" % (grid, batch, tag, kernel, width, param), "h": "interp", "grid": grid, "batch": batch,
                    "coord": coord, "npts": npts, "kernel": kernel, "width": width, "param": param})
    for kern, prm in KERN:
        for cname, c in C1.items():
            for w in ((1, 1.5, 2, 3, 4) if full or cname in ("frac", "half") else (2, 3)):
                for n in ((1, 2, 3, 4) if full else (3,)):
                    add([n], [], c, kern, w, prm, "1d-" + cname)
        add([4], [], [[0.6], [-1.25], [1.75]], kern, 3, prm, "1d-oddw")
        add([4], [], [[0.6], [-1.25], [1.75]], kern, 2.5, prm, "1d-fracw")
        add([3], [2], C1["frac"], kern, 2, prm, "1d-batch")
        add([4], [2, 1], C1["half"], kern, 2.5, prm, "1d-batch2")
        for cname, c in C2.items():
            add([3, 2], [], c, kern, 2, prm, "2d-" + cname)
            if full:
                add([2, 3], [2], c, kern, [3, 1.5], prm, "2d-w2-" + cname)
                add([1, 4], [], c, kern, [1, 4], prm, "2d-len1-" + cname)
        add([3, 3], [], C2["tie"], kern, [2, 3], prm, "2d-peraxis")
        # odd / fractional widths on EACH axis with coordinates whose fractional part is above one half (upper window limit floor(k + W/2))
        add([3, 4], [], C2["fracy"], kern, [3, 2], prm, "2d-oddw-y")
        add([4, 3], [], C2["fracy"], kern, [1.5, 3], prm, "2d-fracw-y")
        add([2, 3, 3], [], [[0.6, 1.75, -0.7], [-0.3, 0.55, 1.6]], kern, [3, 1.5, 3], prm, "3d-oddw")
        # grids with singleton axes: the kernel still contributes its weights along them
        add([1, 3], [], C2["frac"], kern, [3, 2], prm, "2d-len1a")
        add([3, 1], [], C2["tie"], kern, [2, 4], prm, "2d-len1b")
        add([1, 2, 1], [], C3["frac"], kern, [2, 2, 3], prm, "3d-len1")
        for cname, c in C3.items():
            if full or cname == "tie":
                add([2, 2, 3], [], c, kern, 2, prm, "3d-" + cname)
        add([2, 3, 2], [2], C3["frac"], kern, [2, 1, 3], prm, "3d-peraxis")
    add([3, 3], [], C2["frac"], "spline", [2, 3], [1, 2], "2d-perparam")
    add([2, 2, 3], [], C3["tie"], "spline", 2, [0, 1, 2], "3d-perparam")
    add([3, 2], [], C2["frac"], "kaiser_bessel", [3, 2], [2.0, 5.5], "2d-perparam")
    for prm in (0, 1, 2):
        out.append({"id": "kernel:spline%d" % prm, "h": "kernel", "kernel": "spline", "param": prm})
    for beta in (1.0, 2.34, 3.5):      # beta < 3.75 keeps the I0 approximation on its polynomial branch for symbolic arguments
        out.append({"id": "kernel:kaiser_bessel:%s" % beta, "h": "kernel", "kernel": "kaiser_bessel", "param": beta})
    # symbolic coordinates (spline kernels): window bounds, wrap and kernel pieces for every real coordinate in the range
    for prm in (0, 1, 2):
        for w in ((1, 2, 3) if not full else (1, 1.5, 2, 3, 4)):
            out.append({"id": "symcoord:g=[3]:1pt:spline%d:w=%s" % (prm, w), "h": "interp", "grid": [3], "batch": [], "npts": 1, "kernel": "spline",
                        "width": w, "param": prm, "symcoord": [-4, 7], "max_paths": 4000, "cost": 50})
    if full:
        for prm in (0, 1, 2):
            out.append({"id": "symcoord:g=[3]:2pt:spline%d:w=2" % prm, "h": "interp", "grid": [3], "batch": [2], "npts": 2, "kernel": "spline",
                        "width": 2, "param": prm, "symcoord": [-1.5, 3.5], "max_paths": 20000, "cost": 500})
            out.append({"id": "symcoord:g=[2,3]:1pt:spline%d:w=[2,1.5]" % prm, "h": "interp", "grid": [2, 3], "batch": [], "npts": 1, "kernel": "spline",
                        "width": [2, 1.5], "param": prm, "symcoord": [-1.5, 3.5], "max_paths": 20000, "cost": 500})
    return out
