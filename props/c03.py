"""C03 - operator algebra agrees with matrix algebra and advertised shapes."""
import numpy as np

from symsig import oracle as O
from . import catalogue as C
from . import trees
from .c01 import _dedup

PROPERTY = "C03"
FUNCTIONS = ["sigpy.linop.Linop.__mul__/__rmul__/__add__/__sub__/__neg__", "Compose, Add, Hstack, Vstack, Diag, Conj (_apply)",
             "_hstack_params, _vstack_params, _check_compose_linops, _check_linops_same_ishape/_oshape, _combine_compose_linops",
             "Linop.apply shape guards"]
BOUNDS = {"quick": "rule core + 60 seeded depth-2 trees; every leaf's advertised shape; 40 incompatible operand pairs",
          "thorough": "exhaustive depth-2 rule instances (all stacking axes in [-ndim, ndim) and None) + 300 seeded depth-3 trees"}
OUTSIDE = ["trees deeper than 3", "operands outside the catalogue (Wavelet, device operators)"]
ASSUMPTIONS = ["inputs, scalars and operator parameters arbitrary complex (symbolic); tree shapes concrete"]
EXPLANATION = ("C03: the value of every algebra node equals the matrix expression of its parts, computed by an independent oracle "
               "(split points = cumulative sizes along axis % ndim, flattening when axis is None); A(x).shape == A.oshape; "
               "shape-incompatible operands raise.")


def _prod(s):
    p = 1
    for d in s:
        p *= int(d)
    return p


def _split(x, shapes, axis):
    """independent oracle: pieces of x for operators with the given input shapes"""
    out = []
    if axis is None:
        pos = 0
        for s in shapes:
            n = _prod(s)
            out.append(x[pos:pos + n].reshape(s))
            pos += n
        return out
    ax = axis % len(shapes[0])
    pos = 0
    for s in shapes:
        idx = [slice(None)] * x.ndim
        idx[ax] = slice(pos, pos + s[ax])
        out.append(x[tuple(idx)])
        pos += s[ax]
    return out


def _cat(ys, axis):
    if axis is None:
        return np.concatenate([np.asarray(y).ravel() for y in ys])
    return np.concatenate(ys, axis=axis % ys[0].ndim)


def h_tree(cfg, V):
    spec = cfg["spec"]
    A = C.build(spec, V)
    x = V.array("x", A.ishape)
    Ax = A(x)
    obl = [("advertised_oshape", O.const(list(np.shape(Ax)) == [int(d) for d in A.oshape]))]
    op = spec[0]
    if op not in C.TREE_OPS or op in ("H", "N"):
        return obl
    ks = [C.build(s, V, "p" + str(i)) for i, s in enumerate(C.kids_of(spec))]
    if op in ("Compose", "Mul"):
        r = x
        for k in ks[::-1]:
            r = k(r)
    elif op in ("Add", "AddC"):
        r = ks[0](x)
        for k in ks[1:]:
            r = r + k(x)
    elif op == "Sub":
        r = ks[0](x) - ks[1](x)
    elif op == "Neg":
        r = -ks[0](x)
    elif op == "ScaleL":
        r = C._scalar(spec[1], V, "pa") * ks[0](x)
    elif op == "ScaleR":
        r = ks[0](C._scalar(spec[2], V, "pa") * x)
    elif op == "Conj":
        r = np.conj(ks[0](np.conj(x)))
    elif op == "Hstack":
        parts = _split(x, [k.ishape for k in ks], spec[2])
        r = ks[0](parts[0])
        for k, p in zip(ks[1:], parts[1:]):
            r = r + k(p)
    elif op == "Vstack":
        r = _cat([k(x) for k in ks], spec[2])
    elif op == "Diag":
        parts = _split(x, [k.ishape for k in ks], spec[3])
        r = _cat([k(p) for k, p in zip(ks, parts)], spec[2])
    obl.append(("matrix_expression", O.eq(Ax, r)))
    return obl


def h_reject(cfg, V):
    """shape-incompatible operands must be rejected with an error (at construction or application)"""
    try:
        A = C.build(cfg["spec"], V)
        x = V.array("x", A.ishape)
        A(x)
    except Exception:
        return [("rejected", O.const(True))]
    return [("rejected", O.const(False))]


HARNESSES = {"tree": h_tree, "reject": h_reject}

I23 = ["Identity", [2, 3]]
BAD = [
    ["Mul", [I23, ["Identity", [3, 2]]]], ["Mul", [["Sum", [2, 3], [0]], ["Transpose", [2, 3], None]]],
    ["Mul", [["Reshape", [6], [2, 3]], ["Reshape", [2, 3], [6]], I23, ["Identity", [6]]]],
    ["Compose", [["FFT", [2, 3], None, True], ["Identity", [2, 2]]]],
    ["Add", [I23, ["Identity", [3, 2]]]], ["Add", [I23, ["Sum", [2, 3], [0]]]], ["Sub", I23, ["Reshape", [6], [2, 3]]],
    ["AddC", [["Transpose", [2, 3], None], I23]], ["Add", [["Resize", [2, 2], [2, 3], None, None], I23]],
    ["Hstack", [I23, ["Identity", [3, 2]]], 0], ["Hstack", [I23, ["Sum", [2, 3], [0]]], 0], ["Hstack", [I23, ["Identity", [2, 2]]], 0],
    ["Hstack", [["Sum", [2, 3], [0]], ["Identity", [3]]], 0], ["Hstack", [I23, ["Reshape", [2, 3], [6]]], 1],
    ["Hstack", [I23, ["Resize", [2, 3], [3, 3], None, None]], 1], ["Hstack", [I23, ["Resize", [2, 3], [3, 3], None, None]], -1],
    ["Hstack", [I23, ["Identity", [3, 2]]], None], ["Hstack", [I23, ["Transpose", [2, 3], None]], None],
    ["Vstack", [I23, ["Identity", [3, 2]]], 0], ["Vstack", [I23, ["Resize", [3, 2], [2, 3], None, None]], 0],
    ["Vstack", [I23, ["Resize", [2, 2], [2, 3], None, None]], 0], ["Vstack", [I23, ["Sum", [2, 3], [0]]], 1],
    ["Vstack", [I23, ["Resize", [3, 3], [2, 3], None, None]], -1], ["Vstack", [I23, ["Reshape", [6], [2, 3]]], -1],
    ["Vstack", [I23, ["Identity", [6]]], None],
    ["Diag", [I23, ["Identity", [3, 2]]], 0, 0], ["Diag", [I23, ["Identity", [2, 2]]], 0, 1], ["Diag", [I23, ["Sum", [2, 3], [0]]], 0, 0],
    ["Diag", [I23, ["Resize", [3, 3], [2, 3], None, None]], 1, 0], ["Diag", [I23, ["Identity", [3]]], None, 0],
    ["Diag", [I23, ["Identity", [3]]], 1, None],
    ["Mul", [["Multiply", [2, 3], [2, 3], False], ["Identity", [3]]]], ["Multiply", [2, 3], [2, 2], False], ["Multiply", [2, 3], [3, 1], False],
    ["MatMul", [2, 3], [2, 3], False], ["MatMul", [2, 3, 2], [3, 2, 3], False], ["RightMatMul", [2, 3], [2, 3], False],
    ["RightMatMul", [2, 2, 3], [3, 3, 1], False], ["Reshape", [5], [2, 3]], ["Resize", [0, 2], [2, 3], None, None],
    ["ConvolveData", [2, 2, 3], [2, 3, 2], "full", None, True], ["ConvolveData", [2, 3], [2], "full", [1, 1], False],
    ["ConvolveData", [2, 3], [2], "same", None, False], ["ConvolveData", [3, 2], [2, 3], "valid", None, False],
]


def configs(tier, seed):
    out = []
    for spec in trees.tree_specs(tier, seed):
        out.append({"id": "tree:" + C.sid(spec), "h": "tree", "spec": spec, "field": C.field_for(spec)})
    for spec in C.leaves(tier):
        out.append({"id": "leaf:" + C.sid(spec), "h": "tree", "spec": spec, "field": C.field_for(spec)})
    for spec in BAD:
        out.append({"id": "bad:" + C.sid(spec), "h": "reject", "spec": spec, "field": 4})
    return _dedup(out)


def extra_phases(tier, seed, results):
    """CrossHair (z3 underneath) on the integer shape helpers with SYMBOLIC sizes"""
    from symsig import chx
    viol, inc, summary, samples = chx.evaluate("ch/shapes_c03.py", per_condition_timeout=150 if tier == "quick" else 400)
    return {"violations": viol, "inconclusive": inc, "summary": {"crosshair ch/shapes_c03.py": summary}, "samples": [], "evaluations": summary["contracts"],
            "distinct_nontrivial": summary["contracts"],
            "crosshair": {"module": "ch/shapes_c03.py", "bounds": "symbolic sizes within the ranges stated in each contract's pre-condition", "verdicts": summary["verdicts"],
                          "contracts": samples}}
