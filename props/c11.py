"""C11 - every proximal operator returns the exact minimiser, in the input's shape."""
import itertools
from fractions import Fraction

import numpy as np

from symsig import oracle as O
from symsig import scalar as S
from symsig.scalar import B

PROPERTY = "C11"
FUNCTIONS = ["sigpy.prox.{Prox.__call__,L1Reg,L2Reg,L2Proj,LInfProj,L1Proj,BoxConstraint,Conj,NoOp,Stack,UnitaryTransform}",
             "sigpy.thresh.{soft_thresh,hard_thresh,l1_proj,l2_proj,linf_proj,_soft_thresh,_hard_thresh}", "sigpy.util.{split,vec}"]
BOUNDS = {"quick": "shapes (1,), (2,), (2,1)/(1,2) real and (1,), (2,) complex; l1_proj <= 3 real entries; alpha, lamda, eps > 0 symbolic",
          "thorough": "adds (3,), (2,2) real, (3,) complex for the separable operators and nested combinators"}
OUTSIDE = ["PsdProj/psd_proj beyond 2x2 general and 3x3 with a double eigenvalue; the LAPACK eigensolver is a contract stub (any orthonormal eigenbasis "
           "for eigh; unit-norm eigenvectors without orthogonality inside repeated eigenspaces for eig)", "shapes beyond the bound",
           "optimality is asserted in first-order (KKT) form, which characterises the unique minimiser of the strongly convex problem"]
ASSUMPTIONS = ["alpha > 0 and regularisation / ball parameters > 0 (lower <= upper for the box) are assumed", "division by |y| in soft-thresholding is "
               "defined on the branch where |y| != 0 (recorded as a definedness assumption)"]
EXPLANATION = ("C11: P(alpha, y) has y's shape and satisfies the first-order optimality (KKT) conditions of 0.5||x-y||^2 + alpha g(x) on every "
               "feasible path, for symbolic alpha, parameters and y (real and complex); projections are feasible, idempotent and the identity on "
               "feasible inputs; Conj/Stack/UnitaryTransform are compared with the known conjugate / blockwise / transformed problems.")


# ------------------------------------------------------------------ KKT builders (work in both modes)

def _abs2(v):
    return O.norm2(np.array([v], dtype=object) if isinstance(v, S.SymK) else np.array([v]))


def _re(v):
    return v.real if isinstance(v, S.SymK) else np.real(v)


def _im(v):
    return v.imag if isinstance(v, S.SymK) else np.imag(v)


def _conj(v):
    return v.conjugate() if isinstance(v, S.SymK) else np.conj(v)


def kkt_l1_entry(p, d, t):
    """p minimises ... + t|x| with residual d = (gradient of the smooth part at p) * -1:  p != 0 -> d = t p/|p| ; p == 0 -> |d| <= t.
    polynomial form: d conj(p) real >= 0 and |d|^2 = t^2."""
    z = O.eq(p, 0)
    dp = d * _conj(p)
    nz = O.all_([O.eq(_im(dp), 0), O.ge(_re(dp), 0), O.eq(_abs2(d), t * t)])
    zc = O.le(_abs2(d), t * t)
    return B.and_(B.implies(z, zc), B.implies(B.not_(z), nz))


def kkt_ball_entry(p, y, c, eps):
    """p = projection of y on the closed disc/interval of radius eps around c"""
    feas = O.le(_abs2(p - c), eps * eps)
    inside = O.le(_abs2(y - c), eps * eps)
    w = (y - p) * _conj(p - c)
    outside_ok = O.all_([O.eq(_abs2(p - c), eps * eps), O.eq(_im(w), 0), O.ge(_re(w), 0)])
    return B.and_(feas, B.implies(inside, O.eq(p, y)), B.implies(B.not_(inside), outside_ok))


def kkt_l2ball(p, y, c, eps):
    """vector version: p - c = min(1, eps/||y-c||) (y - c)"""
    n2p = O.norm2(p - c)
    n2y = O.norm2(y - c)
    inside = O.le(n2y, eps * eps)
    feas = O.le(n2p, eps * eps)
    # outside: p - c = s (y - c) with s in (0,1], ||p-c|| = eps  <=> cross terms: (p-c)_i (y-c)_j = (p-c)_j (y-c)_i, <p-c, y-c> real >= 0
    par = []
    pc = list((p - c).ravel())
    yc = list((y - c).ravel())
    for i, j in itertools.combinations(range(len(pc)), 2):
        par.append(O.eq(pc[i] * yc[j], pc[j] * yc[i]))
    ip = O.vdot(p - c, y - c)
    outside_ok = O.all_(par + [O.eq(n2p, eps * eps), O.eq(_im(ip), 0), O.ge(_re(ip), 0)]
                        + ([O.all_([B.and_(O.eq(_im(a * _conj(b)), 0), O.ge(_re(a * _conj(b)), 0)) for a, b in zip(pc, yc)])]))
    return B.and_(feas, B.implies(inside, O.eq(p, y)), B.implies(B.not_(inside), outside_ok))


def _pos(V, name):
    v = V.scalar(name)
    V.assume(v > 0, name + " > 0")
    return v


def _shape_ok(p, y):
    return O.const(tuple(np.shape(p)) == tuple(np.shape(y)))


# ------------------------------------------------------------------ harnesses

def h_l1reg(cfg, V):
    from sigpy import prox
    sh = cfg["shape"]
    lam, alpha = _pos(V, "lam"), _pos(V, "alpha")
    y = V.array("y", sh, cfg["cplx"])
    p = prox.L1Reg(sh, lam)(alpha, y)
    obl = [("shape", _shape_ok(p, y))]
    for i, (pi, yi) in enumerate(zip(np.ravel(p), np.ravel(y))):
        obl.append(("optimal_%d" % i, kkt_l1_entry(pi, yi - pi, alpha * lam)))
    return obl


def h_l2reg(cfg, V):
    from sigpy import prox
    sh = cfg["shape"]
    lam, alpha = _pos(V, "lam"), _pos(V, "alpha")
    y = V.array("y", sh, cfg["cplx"])
    z = V.array("z", sh, cfg["cplx"]) if cfg["bias"] else None
    mu = _pos(V, "mu") if cfg["proxh"] else None
    P = prox.L2Reg(sh, lam, y=z, proxh=prox.L1Reg(sh, mu) if cfg["proxh"] else None)
    p = P(alpha, y)
    obl = [("shape", _shape_ok(p, y))]
    zz = z if z is not None else np.zeros(sh)
    for i, (pi, yi, zi) in enumerate(zip(np.ravel(p), np.ravel(y), np.ravel(zz))):
        d = (yi - pi) + alpha * lam * (zi - pi)
        if cfg["proxh"]:
            obl.append(("optimal_%d" % i, kkt_l1_entry(pi, d, alpha * mu)))
        else:
            obl.append(("optimal_%d" % i, O.eq(d, 0)))
    return obl


def h_l2proj(cfg, V):
    from sigpy import prox, thresh
    sh = cfg["shape"]
    eps, alpha = _pos(V, "eps"), _pos(V, "alpha")
    y = V.array("y", sh, cfg["cplx"])
    c = V.array("c", sh, cfg["cplx"]) if cfg["bias"] else None
    P = prox.L2Proj(sh, eps, y=c if c is not None else 0)
    p = P(alpha, y)
    cc = c if c is not None else np.zeros(sh)
    obl = [("shape", _shape_ok(p, y)), ("projection", kkt_l2ball(p, y, cc, eps))]
    if not (cfg["cplx"] and int(np.prod(sh)) > 1):
        # (for complex vectors the explicit second application is beyond z3's budget; idempotence is the corollary of the two
        #  universally proven facts "P(y) is feasible" and "P(y) = y for feasible y")
        pp = P(alpha, p)
        obl.append(("idempotent", O.eq(pp, p)))
    if c is None:
        t = thresh.l2_proj(eps, y)
        obl.append(("thresh.l2_proj_same", O.eq(t, p)))
    return obl


def h_linfproj(cfg, V):
    from sigpy import prox, thresh
    sh = cfg["shape"]
    eps, alpha = _pos(V, "eps"), _pos(V, "alpha")
    y = V.array("y", sh, cfg["cplx"])
    b = V.array("b", sh, cfg["cplx"]) if cfg["bias"] else None
    P = prox.LInfProj(sh, eps, bias=b)
    p = P(alpha, y)
    bb = b if b is not None else np.zeros(sh)
    obl = [("shape", _shape_ok(p, y))]
    for i, (pi, yi, bi) in enumerate(zip(np.ravel(p), np.ravel(y), np.ravel(bb))):
        obl.append(("projection_%d" % i, kkt_ball_entry(pi, yi, bi, eps)))
    obl.append(("idempotent", O.eq(P(alpha, p), p)))
    return obl


def h_box(cfg, V):
    from sigpy import prox
    sh = cfg["shape"]
    alpha = _pos(V, "alpha")
    y = V.array("y", sh, False)
    if cfg["arr"]:
        lo = V.array("lo", sh, False)
        up = V.array("up", sh, False)
        for a, b in zip(np.ravel(lo), np.ravel(up)):
            V.assume(a <= b, "lower <= upper")
    else:
        lo = V.scalar("lo")
        up = V.scalar("up")
        V.assume(lo <= up, "lower <= upper")
    P = prox.BoxConstraint(sh, lo, up)
    p = P(alpha, y)
    obl = [("shape", _shape_ok(p, y))]
    los = np.ravel(lo) if cfg["arr"] else [lo] * int(np.prod(sh))
    ups = np.ravel(up) if cfg["arr"] else [up] * int(np.prod(sh))
    for i, (pi, yi, l, u) in enumerate(zip(np.ravel(p), np.ravel(y), los, ups)):
        obl.append(("projection_%d" % i, O.all_([O.le(l, pi), O.le(pi, u),
                                               B.implies(B.and_(O.le(l, yi), O.le(yi, u)), O.eq(pi, yi)),
                                               B.implies(O.lt(yi, l), O.eq(pi, l)), B.implies(O.gt(yi, u), O.eq(pi, u))])))
    obl.append(("idempotent", O.eq(P(alpha, p), p)))
    return obl


def _kkt_l1ball(p, y, eps):
    """real vectors: p = projection of y on {||x||_1 <= eps}"""
    ps, ys = list(np.ravel(p)), list(np.ravel(y))
    n = len(ps)

    def ab(v):
        return abs(v)
    # all comparisons via squares/sign splits are avoided: abs() forks in symbolic mode, which is fine here
    ap = [ab(v) for v in ps]
    ay = [ab(v) for v in ys]
    s_p = ap[0]
    for v in ap[1:]:
        s_p = s_p + v
    s_y = ay[0]
    for v in ay[1:]:
        s_y = s_y + v
    feas = O.le(s_p, eps)
    inside = O.le(s_y, eps)
    conds = [O.eq(s_p, eps)]
    for i in range(n):
        nz_i = B.not_(O.eq(ps[i], 0))
        th_i = ay[i] - ap[i]
        conds.append(B.implies(nz_i, B.and_(O.ge(th_i, 0), O.ge(ps[i] * ys[i], 0))))
        for j in range(n):
            if i == j:
                continue
            nz_j = B.not_(O.eq(ps[j], 0))
            conds.append(B.implies(B.and_(nz_i, nz_j), O.eq(th_i, ay[j] - ap[j])))
            conds.append(B.implies(B.and_(nz_i, B.not_(nz_j)), O.le(ay[j], th_i)))
    return B.and_(feas, B.implies(inside, O.eq(p, y)), B.implies(B.not_(inside), O.all_(conds)))


def h_l1proj(cfg, V):
    from sigpy import prox, thresh
    sh = cfg["shape"]
    eps, alpha = _pos(V, "eps"), _pos(V, "alpha")
    y = V.array("y", sh, False)
    if cfg.get("via") == "thresh":
        p = thresh.l1_proj(eps, y)
    else:
        p = prox.L1Proj(sh, eps)(alpha, y)
    obl = [("shape", _shape_ok(p, y))]
    if tuple(np.shape(p)) == tuple(np.shape(y)):
        obl.append(("projection", _kkt_l1ball(p, y, eps)))
    return obl


def h_conj(cfg, V):
    from sigpy import prox
    sh = cfg["shape"]
    alpha = _pos(V, "alpha")
    y = V.array("y", sh, cfg["cplx"])
    kind = cfg["kind"]
    obl = []
    if kind == "l1":       # conj of lam||.||_1 = indicator of the linf ball of radius lam
        lam = _pos(V, "lam")
        p = prox.Conj(prox.L1Reg(sh, lam))(alpha, y)
        for i, (pi, yi) in enumerate(zip(np.ravel(p), np.ravel(y))):
            obl.append(("is_linf_projection_%d" % i, kkt_ball_entry(pi, yi, 0, lam)))
    elif kind == "l2":     # conj of lam/2||x||^2 is ||x||^2/(2 lam)
        lam = _pos(V, "lam")
        p = prox.Conj(prox.L2Reg(sh, lam))(alpha, y)
        obl.append(("is_prox_of_conjugate", O.eq((p - y) * lam + alpha * p, np.zeros(sh))))
    elif kind == "noop":   # conj of 0 = indicator of {0}
        p = prox.Conj(prox.NoOp(sh))(alpha, y)
        obl.append(("is_zero", O.eq(p, np.zeros(sh))))
    elif kind == "conjconj":
        lam = _pos(V, "lam")
        P0 = prox.L1Reg(sh, lam)
        p = prox.Conj(prox.Conj(P0))(alpha, y)
        obl.append(("biconjugate_is_original", O.eq(p, P0(alpha, y))))
    elif kind == "linfproj":   # conj of indicator of linf ball radius eps = eps||.||_1
        eps = _pos(V, "eps")
        p = prox.Conj(prox.LInfProj(sh, eps))(alpha, y)
        for i, (pi, yi) in enumerate(zip(np.ravel(p), np.ravel(y))):
            obl.append(("is_l1_prox_%d" % i, kkt_l1_entry(pi, yi - pi, alpha * eps)))
    obl.append(("shape", _shape_ok(p, y)))
    return obl


def h_stack(cfg, V):
    from sigpy import prox
    lam, mu = _pos(V, "lam"), _pos(V, "mu")
    shs = cfg["shapes"]
    P1, P2 = prox.L1Reg(shs[0], lam), prox.L2Reg(shs[1], mu)
    P = prox.Stack([P1, P2])
    n1, n2 = int(np.prod(shs[0])), int(np.prod(shs[1]))
    y = V.array("y", [n1 + n2], cfg["cplx"])
    if cfg["alpha"] == "scalar":
        alpha = _pos(V, "alpha")
        a1 = a2 = alpha
    else:
        alpha = V.array("alpha", [n1 + n2], False)
        for a in alpha:
            V.assume(a > 0, "alpha > 0")
        a1, a2 = alpha[:n1].reshape(shs[0]), alpha[n1:].reshape(shs[1])
    p = P(alpha, y)
    r1 = P1(a1, y[:n1].reshape(shs[0]))
    r2 = P2(a2, y[n1:].reshape(shs[1]))
    return [("shape", _shape_ok(p, y)), ("blockwise", O.eq(p, np.concatenate([np.ravel(r1), np.ravel(r2)])))]


def h_unitary(cfg, V):
    import sigpy as sp
    from sigpy import prox
    sh = cfg["shape"]
    lam, alpha = _pos(V, "lam"), _pos(V, "alpha")
    y = V.array("y", sh, True)
    kind = cfg["A"]
    A = {"fft": lambda: sp.linop.FFT(sh), "transpose": lambda: sp.linop.Transpose(sh), "circshift": lambda: sp.linop.Circshift(sh, [1] * len(sh)),
         "flip": lambda: sp.linop.Flip(sh)}[kind]()
    p = prox.UnitaryTransform(prox.L1Reg(A.oshape, lam), A)(alpha, y)
    obl = [("shape", _shape_ok(p, y))]
    q, Ay = A(p), A(y)
    for i, (qi, yi) in enumerate(zip(np.ravel(q), np.ravel(Ay))):
        obl.append(("optimal_in_transform_domain_%d" % i, kkt_l1_entry(qi, yi - qi, alpha * lam)))
    return obl


def h_thresh(cfg, V):
    from sigpy import thresh
    sh = cfg["shape"]
    lam = _pos(V, "lam")
    y = V.array("y", sh, cfg["cplx"])
    obl = []
    if cfg["fn"] == "soft":
        if cfg.get("lam_array"):
            lam = V.array("lamv", sh, False)
            for l in np.ravel(lam):
                V.assume(l > 0, "lam > 0")
        p = thresh.soft_thresh(lam, y)
        lams = np.ravel(lam) if cfg.get("lam_array") else [lam] * int(np.prod(sh))
        for i, (pi, yi, li) in enumerate(zip(np.ravel(p), np.ravel(y), lams)):
            obl.append(("soft_optimal_%d" % i, kkt_l1_entry(pi, yi - pi, li)))
    elif cfg["fn"] == "hard":
        p = thresh.hard_thresh(lam, y)
        for i, (pi, yi) in enumerate(zip(np.ravel(p), np.ravel(y))):
            big = O.gt(_abs2(yi), lam * lam)
            obl.append(("hard_definition_%d" % i, B.and_(B.implies(big, O.eq(pi, yi)), B.implies(B.not_(big), O.eq(pi, 0)))))
    elif cfg["fn"] == "linf":
        p = thresh.linf_proj(lam, y)
        for i, (pi, yi) in enumerate(zip(np.ravel(p), np.ravel(y))):
            obl.append(("linf_projection_%d" % i, kkt_ball_entry(pi, yi, 0, lam)))
    elif cfg["fn"] == "l2axes":
        p = thresh.l2_proj(lam, y, axes=cfg["axes"])
        ax = cfg["axes"][0] % len(sh)
        for k in range(sh[1 - ax]):
            sl = [slice(None)] * 2
            sl[1 - ax] = k
            obl.append(("l2_projection_group_%d" % k, kkt_l2ball(p[tuple(sl)], y[tuple(sl)], np.zeros(sh[ax]), lam)))
    obl.append(("shape", _shape_ok(p, y)))
    return obl


def _unit_pair(V, name):
    """complex (p, q) with |p|^2 + |q|^2 = 1"""
    p, q = V.scalar(name + "p", True), V.scalar(name + "q", True)
    V.assume(O.eq(O.norm2([p]) + O.norm2([q]), 1), "|%sp|^2+|%sq|^2 = 1" % (name, name))
    return p, q


def _unit(V, name):
    e = V.scalar(name, True)
    V.assume(O.eq(O.norm2([e]), 1), "|%s| = 1" % name)
    return e


def h_psd(cfg, V):
    """PsdProj / psd_proj with the LAPACK eigensolver replaced by a nondeterministic stub constrained by its documented contract:
    eigh: ANY orthonormal eigenbasis (arbitrary phases; arbitrary unitary mixing inside a repeated eigenvalue's eigenspace);
    eig:  eigenvectors of unit norm only - inside a repeated eigenvalue's eigenspace they need not be orthogonal.
    The input is parametrised by its own eigendecomposition (every matrix is Hermitian part U diag(l) U^H + anti-Hermitian part)."""
    from sigpy import thresh, prox
    cj = np.conj
    obj = object if V.symbolic else np.complex128
    if cfg["case"] == "general2":
        n = 2
        p, q = _unit_pair(V, "u")
        U = np.array([[p, -cj(q)], [q, cj(p)]], dtype=obj)
        lam = [V.scalar("l0"), V.scalar("l1")]
        e0, e1 = _unit(V, "e0"), _unit(V, "e1")
        Mh = np.array([[e0, 0], [0, e1]], dtype=obj)          # eigh (and eig for distinct eigenvalues): phases only
        a, b = _unit_pair(V, "ma")
        c, d = _unit_pair(V, "mb")
        Mg = np.array([[a, c], [b, d]], dtype=obj)            # eig, repeated eigenvalue: any two unit vectors
        repeated = (lam[0] == lam[1]) if V.symbolic else (lam[0] == lam[1])
    else:
        n = 3
        U = np.array([[2, -1, 2], [2, 2, -1], [-1, 2, 2]], dtype=obj) / 3     # rational rotation
        if V.symbolic:
            U = np.array([[S.SymK.lift(Fraction(int(round(float(complex(v).real) * 3)), 3)) for v in row] for row in U], dtype=object)
        l, l3 = V.scalar("l0"), V.scalar("l2")
        lam = [l, l, l3]                                        # a double eigenvalue by construction
        p, q = _unit_pair(V, "r")
        e = _unit(V, "e")
        e2 = _unit(V, "e2")
        Mh = np.array([[p, -cj(q) * e, 0], [q, cj(p) * e, 0], [0, 0, e2]], dtype=obj)   # unitary mixing of the double eigenspace
        a, b = _unit_pair(V, "ma")
        c, d = _unit_pair(V, "mb")
        Mg = np.array([[a, c, 0], [b, d, 0], [0, 0, e2]], dtype=obj)
        repeated = True
    D = np.zeros((n, n), dtype=obj)
    for i in range(n):
        D[i, i] = lam[i]
    H = U @ D @ cj(U).T
    K = np.zeros((n, n), dtype=obj)
    for i in range(n):
        K[i, i] = 1j * V.scalar("k%d" % i)
        for j in range(i + 1, n):
            kij = V.scalar("k%d%d" % (i, j), True)
            K[i, j] = kij
            K[j, i] = -cj(kij)
    Y = H + K
    Y0 = Y.copy()
    seen = []
    w_ret = np.array(lam, dtype=object if V.symbolic else np.float64)

    def stub_eigh(a, *args, **kw):
        seen.append(("eigh", np.array(a, copy=True)))
        return w_ret.copy(), U @ Mh

    def stub_eig(a, *args, **kw):
        seen.append(("eig", np.array(a, copy=True)))
        rep = bool(repeated) if not isinstance(repeated, bool) else repeated
        return w_ret.astype(obj).copy(), U @ (Mg if rep else Mh)
    o1, o2 = np.linalg.eigh, np.linalg.eig
    if V.symbolic:
        np.linalg.eigh, np.linalg.eig = stub_eigh, stub_eig
    try:
        X = thresh.psd_proj(Y) if cfg["via"] == "thresh" else prox.PsdProj([n, n])(1, Y)
    finally:
        np.linalg.eigh, np.linalg.eig = o1, o2
    Dp = np.zeros((n, n), dtype=obj)
    for i in range(n):
        Dp[i, i] = lam[i] if (lam[i] > 0) else 0
    ref = U @ Dp @ cj(U).T
    good = O.eq(X, ref)
    if V.symbolic:
        # the stub answers for the Hermitian part H; its answer is only meaningful if H is what the code asked it to decompose (once)
        good = B.and_(good, O.const(len(seen) == 1), O.eq(seen[0][1], H) if seen else O.const(False))
    return [("projection_is_U_maxlam0_UH", good), ("shape", O.const(np.shape(X) == (n, n))), ("input_unchanged", O.eq(Y, Y0))]


HARNESSES = {"psd": h_psd, "l1reg": h_l1reg, "l2reg": h_l2reg, "l2proj": h_l2proj, "linfproj": h_linfproj, "box": h_box, "l1proj": h_l1proj, "conj": h_conj,
             "stack": h_stack, "unitary": h_unitary, "thresh": h_thresh}


def configs(tier, seed):
    full = tier == "thorough"
    out = []

    def add(h, ident, **kw):
        kw.update(id="%s:%s" % (h, ident), h=h)
        kw.setdefault("max_paths", 6000)
        out.append(kw)
    rshapes = [[1], [2], [2, 1]] + ([[3], [2, 2]] if full else [])
    cshapes = [[1], [2]] + ([[3], [1, 2]] if full else [])
    for cplx, shapes in ((False, rshapes), (True, cshapes)):
        for sh in shapes:
            t = "%s:%s" % (sh, "c" if cplx else "r")
            add("l1reg", t, shape=sh, cplx=cplx)
            for bias, ph in ((False, False), (True, False), (True, True), (False, True)):
                if ph and int(np.prod(sh)) > (2 if not cplx else 1) and not full:
                    continue
                add("l2reg", "%s:bias=%s:proxh=%s" % (t, bias, ph), shape=sh, cplx=cplx, bias=bias, proxh=ph)
            for bias in (False, True):
                if int(np.prod(sh)) > 2 and cplx:
                    continue
                add("l2proj", "%s:bias=%s" % (t, bias), shape=sh, cplx=cplx, bias=bias)
                add("linfproj", "%s:bias=%s" % (t, bias), shape=sh, cplx=cplx, bias=bias)
            for kind in ("l1", "l2", "noop", "conjconj", "linfproj"):
                if int(np.prod(sh)) > 2 and not full:
                    continue
                add("conj", "%s:%s" % (t, kind), shape=sh, cplx=cplx, kind=kind)
            add("thresh", "soft:%s" % t, shape=sh, cplx=cplx, fn="soft")
            add("thresh", "hard:%s" % t, shape=sh, cplx=cplx, fn="hard")
            add("thresh", "linf:%s" % t, shape=sh, cplx=cplx, fn="linf")
    add("thresh", "soft-lamarray:[2]:r", shape=[2], cplx=False, fn="soft", lam_array=True)
    add("thresh", "soft-lamarray:[2]:c", shape=[2], cplx=True, fn="soft", lam_array=True)
    add("thresh", "l2axes:[2,2]:axes=[0]:r", shape=[2, 2], cplx=False, fn="l2axes", axes=[0])
    add("thresh", "l2axes:[2,2]:axes=[-1]:r", shape=[2, 2], cplx=False, fn="l2axes", axes=[-1])
    for sh in ([1], [2], [2, 1], [1, 2]) + (([3], [2, 2]) if full else ()):
        for arr in (False, True):
            add("box", "%s:arr=%s" % (sh, arr), shape=sh, arr=arr)
    # ([2, 2]: 4 entries sort 4! ways x threshold forks: > 4000 paths, > 30 min - outside; the 2-D shape handling is covered by [1, 2], [2, 1])
    for sh in ([1], [2], [3], [1, 2], [2, 1]):
        add("l1proj", "%s:prox" % sh, shape=sh, via="prox")
        add("l1proj", "%s:thresh" % sh, shape=sh, via="thresh")
    for cplx in (False, True):
        for al in ("scalar", "array"):
            add("stack", "[1]+[1]:%s:alpha=%s" % ("c" if cplx else "r", al), shapes=[[1], [1]], cplx=cplx, alpha=al)
    add("stack", "[2]+[1,2]:r:alpha=array", shapes=[[2], [1, 2]], cplx=False, alpha="array")
    for case in ("general2", "repeated3"):
        for via in ("thresh", "prox"):
            add("psd", "%s:%s" % (case, via), case=case, via=via)
    for a, sh, fld in (("flip", [2], 4), ("circshift", [2], 4), ("transpose", [1, 2], 4), ("fft", [2], 8)):
        add("unitary", "%s:%s" % (a, sh), shape=sh, A=a, field=fld)
    return out
