"""C06 - nufft approximates the non-uniform DFT to its stated accuracy (partial: concrete coordinate sets, operator infinity-norm form)."""
from fractions import Fraction

import numpy as np

from symsig import oracle as O
from symsig import scalar as S

PROPERTY = "C06"
FUNCTIONS = ["sigpy.fourier.nufft", "sigpy.fourier.nufft_adjoint", "sigpy.fourier._apodize/_scale_coord/_get_oversamp_shape",
             "sigpy.interp.interpolate / gridding with the Kaiser-Bessel kernel (numba kernels run as Python)", "sigpy.fourier.fft / ifft, sigpy.util.resize"]
BOUNDS = {"quick": "image shapes [4], [5], [3,4], [4,3], [2,3,2] and [2,4] with a batch axis; call histories (an earlier transform of the same shape with an oversampling factor that rounds to the same grid length); coordinate families random / on-grid / half-integer / "
                   "out-of-range (6 points each, fixed seed); (oversamp, width) in {(1.25, 4), (2, 4)}; x ANY complex array with |Re x_j|, |Im x_j| <= 0.7071 (entries in the unit disc)",
          "thorough": "adds [8], [5,6], [4,4], [3,4,2], clustered coordinates, width 6"}
OUTSIDE = ["coordinates are concrete (the transform is transcendental in them); other coordinate sets, larger shapes, oversamp/width outside the two pairs",
           "the property's relative l2 form: the bound is decided in the operator infinity-norm form |(nufft(x) - NDFT x)_j| <= tol * ||NDFT||_inf for all "
           "x with entries in the unit disc (|Re|, |Im| <= 0.7071), with tol the property's 3 % (defaults) and 0.3 % (oversamp 2) - measured on the pinned tree: <= 1.1 % and <= 0.09 %",
           "float rounding of the extracted matrices (1e-16) is far below the tolerance"]
ASSUMPTIONS = ["the two float matrices are extracted from the real code by applying it to the basis vectors (linearity of nufft / nufft_adjoint is C02); "
               "the reference is the documented NDFT y_j = N^(-1/2) sum_n x_n exp(-2 pi i k_j.n/N), n measured from the centre index N//2",
               "x arbitrary complex in the unit box (symbolic); z3 decides the linear real arithmetic bound"]
EXPLANATION = ("C06 (partial): for every listed shape / coordinate set / (oversamp, width), for ALL complex x in the unit box, every output sample of nufft "
               "differs from the exact non-uniform DFT by at most 3 % (0.3 % at oversamp 2) of the NDFT's operator infinity norm, and nufft_adjoint from the "
               "NDFT's conjugate transpose by the same fraction of its norm; coordinates outside [-N/2, N/2) are included (periodicity).")
CONFIG_BUDGET_S = {"quick": 900, "thorough": 1800}
TOL = {(1.25, 4): 0.03, (1.3, 4): 0.03, (1.375, 4): 0.03, (2, 4): 0.003, (1.25, 6): 0.003, (2, 6): 0.0003}


def _ndft(tshape, coord):
    grids = np.meshgrid(*[np.arange(n) - n // 2 for n in tshape], indexing="ij")
    pts = np.stack([g.ravel() for g in grids], -1)
    ph = np.exp(-2j * np.pi * ((coord / np.array(tshape, dtype=float)) @ pts.T))
    return ph / np.sqrt(np.prod(tshape))


def _coords(kind, tshape, seed):
    rng = np.random.default_rng(seed)
    nd = len(tshape)
    npts = 6
    sh = np.array(tshape, dtype=float)
    if kind == "rand":
        c = (rng.random((npts, nd)) - 0.5) * sh
    elif kind == "grid":
        c = np.array([[(i * (d + 1)) % n - n // 2 for d, n in enumerate(tshape)] for i in range(npts)], dtype=float)
    elif kind == "half":
        c = np.array([[(i * (d + 1)) % n - n // 2 + 0.5 for d, n in enumerate(tshape)] for i in range(npts)], dtype=float)
    elif kind == "far":
        c = (rng.random((npts, nd)) - 0.5) * sh * 3
    elif kind == "cluster":
        c = 0.3 + 0.01 * rng.standard_normal((npts, nd))
    else:
        raise ValueError(kind)
    return np.round(c, 4)


def h_nufft(cfg, V):
    import sigpy as sp
    shape, nb = cfg["shape"], cfg.get("batch", 0)
    tshape = shape[nb:]
    coord = _coords(cfg["coords"], tshape, cfg.get("cseed", 1))
    osf, width = cfg["oversamp"], cfg["width"]
    for osf0, w0 in cfg.get("before", []):
        # call history: an earlier transform of the same shape with other parameters must not influence this one
        sp.nufft(np.ones(tshape, dtype=np.complex128), coord, oversamp=osf0, width=w0)
        sp.nufft_adjoint(np.ones(coord.shape[0], dtype=np.complex128), coord, oshape=tshape, oversamp=osf0, width=w0)
    D = _ndft(tshape, coord)                      # [npts, npix]
    npix = int(np.prod(tshape))
    npts = coord.shape[0]
    Nf = np.zeros((npts, npix), dtype=np.complex128)
    Na = np.zeros((npix, npts), dtype=np.complex128)
    for j in range(npix):
        e = np.zeros(npix, dtype=np.complex128)
        e[j] = 1
        Nf[:, j] = np.ravel(sp.nufft(e.reshape(tshape), coord, oversamp=osf, width=width))
    for j in range(npts):
        e = np.zeros(npts, dtype=np.complex128)
        e[j] = 1
        Na[:, j] = np.ravel(sp.nufft_adjoint(e, coord, oshape=tshape, oversamp=osf, width=width))
    tol = TOL[(osf, width)]
    sf = float(np.abs(D).sum(axis=1).max())
    sa = float(np.abs(D.conj().T).sum(axis=1).max())
    obl = [("reference_operator_is_nontrivial", O.const(sf > 1e-6 and sa > 1e-6))]
    x = V.array("x", [npix])
    y = V.array("y", [npts])
    V.box(Fraction(7071, 10000))      # |Re x_j|, |Im x_j| <= 0.7071: every entry in the unit disc
    for name, E, vec, scale in (("nufft", Nf - D, x, sf), ("nufft_adjoint", Na - D.conj().T, y, sa)):
        bound = tol * scale
        if V.symbolic:
            El = S.lift_array(E)
            for i in range(E.shape[0]):
                acc = S.SymK.lift(0)
                for j in range(E.shape[1]):
                    acc = acc + El[i, j] * vec[j]
                obl.append(("%s_within_tolerance_sample%d" % (name, i), O.within_disc(acc, bound)))
        else:
            r = E @ np.ravel(vec)
            for i in range(E.shape[0]):
                obl.append(("%s_within_tolerance_sample%d" % (name, i), O.const(abs(r[i]) <= bound)))
    if nb:
        # batch axes: each batch element is transformed independently (float check of the real code on a random batch)
        rng = np.random.default_rng(3)
        xb = rng.standard_normal(shape) + 1j * rng.standard_normal(shape)
        yb = sp.nufft(xb, coord, oversamp=osf, width=width)
        ok = all(np.allclose(yb[b], sp.nufft(xb[b], coord, oversamp=osf, width=width)) for b in np.ndindex(*shape[:nb]))
        obl.append(("batch_elements_transformed_independently", O.const(bool(ok) and list(yb.shape) == list(shape[:nb]) + [npts])))
    return obl


HARNESSES = {"nufft": h_nufft}


def configs(tier, seed):
    full = tier == "thorough"
    out = []
    shapes = [([4], 0), ([5], 0), ([3, 4], 0), ([4, 3], 0), ([2, 3, 2], 0), ([2, 4], 1)] + ([([8], 0), ([5, 6], 0), ([4, 4], 0), ([3, 4, 2], 0)] if full else [])
    kinds = ["rand", "grid", "half", "far"] + (["cluster"] if full else [])
    pairs = [(1.25, 4), (2, 4)] + ([(1.25, 6)] if full else [])
    for sh, nb in shapes:
        for k in kinds:
            for osf, w in pairs:
                if not full and len(sh) == 3 and k in ("grid", "half"):
                    continue
                out.append({"id": "nufft:%s:batch=%d:%s:os=%s:w=%s" % (sh, nb, k, osf, w), "h": "nufft", "shape": sh, "batch": nb, "coords": k,
                            "oversamp": osf, "width": w, "field": 4, "cost": int(np.prod(sh))})
    # call histories: the same shape first with another oversampling factor that rounds to the same oversampled grid length
    for sh, before, osf in (([6], [(1.25, 4)], 1.3), ([6], [(1.3, 4)], 1.25), ([5], [(1.375, 4)], 1.25), ([4, 6], [(1.3, 4)], 1.25)):
        out.append({"id": "nufft:%s:after=%s:rand:os=%s:w=4" % (sh, before, osf), "h": "nufft", "shape": sh, "batch": 0, "coords": "rand",
                    "oversamp": osf, "width": 4, "before": before, "field": 4, "cost": 50})
    return out
