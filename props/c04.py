"""C04 - the normal operator A.N is A^H A."""
from symsig import oracle as O
from . import catalogue as C
from . import trees
from .c01 import _dedup

PROPERTY = "C04"
FUNCTIONS = ["sigpy.linop.Linop.N / _normal_linop of every class (default H*self and the Identity shortcuts of Identity, Reshape, "
             "Transpose, FFT, IFFT, Circshift, ArrayToBlocks, BlocksToArray)", "NUFFT._normal_linop(toeplitz=False)"]
BOUNDS = {"quick": "quick leaf catalogue + rule core + 60 seeded depth-2 trees", "thorough": "full leaf catalogue (all block stride regimes: "
          "overlapping, tiling, gapped, non-dividing for n in {4,5}, b in 1..3, s in 1..4) + exhaustive depth-2 + 300 seeded depth-3 trees"}
OUTSIDE = ["NUFFT(toeplitz=True) beyond the listed shapes / (oversamp, width) in {(1.25, 4), (2, 4)}; its bound is a stated tolerance "
           "(6% / 1% of ||A^H A||_inf, measured <= 1.6% / 0.2%), decided for all x in the unit box", "Wavelet"]
ASSUMPTIONS = ["x and every operator parameter are arbitrary complex (symbolic)"]
EXPLANATION = ("C04: A.N(x) = A.H(A(x)) for all x and all parameter values, with .N taken before and after .H.  Toeplitz-embedded NUFFT normal "
               "operator: the two concrete float matrices (extracted from the real code by linearity) differ by at most the stated fraction of "
               "||A^H A||_inf on every x of the unit box (z3, linear arithmetic).")


def h_normal(cfg, V):
    A = C.build(cfg["spec"], V)
    x = V.array("x", A.ishape)
    N1 = A.N                     # taken before .H exists
    n1 = N1(x)
    ref = A.H(A(x))
    n2 = A.N(x)                  # cached
    obl = [("normal_shape", O.const(list(N1.ishape) == list(A.ishape) and list(N1.oshape) == list(A.ishape))),
           ("normal_is_AHA", O.eq(n1, ref)), ("normal_cached_is_AHA", O.eq(n2, ref))]
    B_ = C.build(cfg["spec"], V)
    B_.H
    obl.append(("normal_after_H", O.eq(B_.N(x), ref)))
    return obl


TOEP_TOL = {(1.25, 4): 0.06, (2, 4): 0.01}     # measured on the pinned tree: <= 0.016 and <= 0.002 (inf-norm ratio)


def h_toeplitz(cfg, V):
    """NUFFT(toeplitz=True).N vs A.H A: both are concrete float matrices (extracted from the real code by applying it to the basis vectors;
    linearity is C02); z3 decides  |((T - G) x)_i| <= tol * ||G||_inf  for ALL x in the unit box (linear real arithmetic)."""
    import numpy as np
    import sigpy as sp
    from fractions import Fraction
    from symsig import scalar as S
    ishape, coord = cfg["ishape"], np.array(cfg["coord"], dtype=np.float64)
    osf, width = cfg["oversamp"], cfg["width"]
    A = sp.linop.NUFFT(ishape, coord, osf, width, toeplitz=True)
    Bop = sp.linop.NUFFT(ishape, coord, osf, width, toeplitz=False)
    n = int(np.prod(ishape))
    G = np.zeros((n, n), dtype=np.complex128)
    T = np.zeros((n, n), dtype=np.complex128)
    N = A.N
    for j in range(n):
        e = np.zeros(n, dtype=np.complex128)
        e[j] = 1
        e = e.reshape(ishape)
        G[:, j] = np.ravel(Bop.H(Bop(e)))
        T[:, j] = np.ravel(N(e))
    scale = float(np.abs(G).sum(axis=1).max())
    tol = TOEP_TOL[(osf, width)] * scale
    x = V.array("x", ishape)
    V.box(Fraction(7071, 10000))      # |Re x_j|, |Im x_j| <= 0.7071: every entry in the unit disc
    D = T - G
    obl = [("toeplitz_normal_shape", O.const(list(N.ishape) == list(ishape) and list(N.oshape) == list(ishape))),
           ("toeplitz_operator_is_nontrivial", O.const(scale > 1e-6))]
    xf = np.ravel(x)
    if V.symbolic:
        Dl = S.lift_array(D)
        for i in range(n):
            acc = S.SymK.lift(0)
            for j in range(n):
                acc = acc + Dl[i, j] * xf[j]
            obl.append(("toeplitz_normal_close_to_AHA_row%d" % i, O.within_disc(acc, tol)))
    else:
        r = D @ xf
        for i in range(n):
            obl.append(("toeplitz_normal_close_to_AHA_row%d" % i, O.const(abs(r[i]) <= tol)))
    return obl


HARNESSES = {"normal": h_normal, "toeplitz": h_toeplitz}


def configs(tier, seed):
    out = []
    for spec in C.leaves(tier):
        out.append({"id": "leaf:" + C.sid(spec), "h": "normal", "spec": spec, "field": C.field_for(spec)})
    for spec in trees.tree_specs(tier, seed):
        out.append({"id": "tree:" + C.sid(spec), "h": "normal", "spec": spec, "field": C.field_for(spec)})
    import numpy as np
    rng = np.random.default_rng(20260704)
    shapes = [[4], [5], [2, 3], [3, 2], [3, 4]] + ([[4, 4], [2, 6], [6, 2], [2, 3, 4], [3, 5]] if tier == "thorough" else [])
    for sh in shapes:
        nd = len(sh)
        for k, npts in enumerate((3, 7) if tier == "thorough" else (4,)):
            coord = ((rng.random((npts, nd)) - 0.5) * np.array(sh) * 1.2).round(3).tolist()
            for osf, w in ((1.25, 4), (2, 4)):
                out.append({"id": "toeplitz:%s:pts=%d:os=%s:w=%s" % (sh, npts, osf, w), "h": "toeplitz", "ishape": sh, "coord": coord,
                            "oversamp": osf, "width": w, "field": 4})
    return _dedup(out)
