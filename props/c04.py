"""C04 - the normal operator A.N is A^H A."""
from symsig import oracle as O
from . import catalogue as C
from . import trees
from .c01 import _dedup

PROPERTY = "C04"
FUNCTIONS = ["sigpy.linop.Linop.N / _normal_linop of every class (default H*self and the Identity shortcuts of Identity, Reshape, "
             "Transpose, FFT, IFFT, Circshift, ArrayToBlocks, BlocksToArray)", "NUFFT._normal_linop(toeplitz=False)"]
BOUNDS = {"quick": "quick leaf catalogue + rule core + 60 seeded depth-2 trees", "thorough": "full leaf catalogue (all block stride regimes: "
          "overlapping, tiling, gapped, non-dividing for n in {4,5}, b in 1..3, s in 1..4) + exhaustive depth-2 + 300 seeded depth-3 trees"}
OUTSIDE = ["NUFFT(toeplitz=True): an approximation claim between float matrices with a transcendental kernel (not an SMT question, see C06)",
           "Wavelet"]
ASSUMPTIONS = ["x and every operator parameter are arbitrary complex (symbolic)"]
EXPLANATION = "C04: A.N(x) = A.H(A(x)) for all x and all parameter values, with .N taken before and after .H."


def h_normal(cfg, V):
    A = C.build(cfg["spec"], V)
    x = V.array("x", A.ishape)
    N1 = A.N                     # taken before .H exists
    n1 = N1(x)
    ref = A.H(A(x))
    n2 = A.N(x)                  # cached
    obl = [("normal_shape", O.const(list(N1.ishape) == list(A.ishape) and list(N1.oshape) == list(A.ishape))),
           ("normal_is_AHA", O.eq(n1, ref)), ("normal_cached_is_AHA", O.eq(n2, ref))]
    B_ = C.build(cfg["spec"], V)
    B_.H
    obl.append(("normal_after_H", O.eq(B_.N(x), ref)))
    return obl


HARNESSES = {"normal": h_normal}


def configs(tier, seed):
    out = []
    for spec in C.leaves(tier):
        out.append({"id": "leaf:" + C.sid(spec), "h": "normal", "spec": spec, "field": C.field_for(spec)})
    for spec in trees.tree_specs(tier, seed):
        out.append({"id": "tree:" + C.sid(spec), "h": "normal", "spec": spec, "field": C.field_for(spec)})
    return _dedup(out)
