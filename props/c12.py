"""C12 - conjugate gradient produces the Krylov-optimal iterate at every step."""
import itertools
from fractions import Fraction

import numpy as np

from symsig import oracle as O
from symsig import scalar as S
from symsig.scalar import B

PROPERTY = "C12"
FUNCTIONS = ["sigpy.alg.ConjugateGradient.__init__/_update/_done", "sigpy.alg.Alg.update/done", "sigpy.util.axpy/xpay"]
BOUNDS = {"quick": "ARBITRARY symmetric positive definite A for n=2 (entries are solver variables; up to 3 updates, b and x0 symbolic, Jacobi preconditioner; inductive step) and n=3 (one update); "
                   "preconditioners that return their argument itself (function and sp.linop.Identity); further A from a fixed family of rational SPD / Hermitian PD matrices (diagonal, dense, ill-conditioned 1e3, repeated eigenvalues), n=2 "
                   "with b and x0 both symbolic, n=3 with b symbolic and x0 concrete (k <= 2); P in {None, Jacobi, dense SPD}; A as function / Linop; "
                   "max_iter in {1, 2, n, n+1}; tol in {0, symbolic > 0}; one indefinite and one semidefinite A for the breakdown branch",
          "thorough": "adds n=3 with both b and x0 symbolic (k <= 3), complex Hermitian n=2 with complex b, x0, n=3 preconditioned"}
OUTSIDE = ["dimensions 4..12 of the property's quantifier", "arbitrary (symbolic) A beyond: n=2 (every entry a solver variable, Sylvester's criterion assumed) for the unrolled run and the inductive step, "
           "n=3 for one unrolled update and the un-preconditioned inductive step; arbitrary A with a dense preconditioner",
           "float rounding (ill-conditioning only matters in floats; here arithmetic is exact)"]
ASSUMPTIONS = ["A, P concrete Hermitian (positive definite unless stated); b, x0 arbitrary (symbolic); exact real arithmetic",
               "Galerkin characterisation: r_k orthogonal to K_k and x_k - x_0 in K_k (the preconditioned Krylov space) is equivalent to A-norm optimality over x_0 + K_k"]
EXPLANATION = ("C12: after every update() of the real ConjugateGradient object, on every feasible path: tracked r = b - A x whenever it was refreshed; "
               "the true residual is orthogonal to K_k(PA, P r0) and x_k - x_0 lies in it (vanishing minors) - the textbook characterisation of the "
               "A-norm optimal iterate over the shifted Krylov space, which implies the monotone A-norm error (also asserted directly for n=2) and "
               "termination in n steps (r_n = 0 asserted); alg.x is the caller's array; on pAp <= 0: flag set, x unchanged, done().")

MATS = {
    "diag2": [[2, 0], [0, 5]],
    "dense2": [[4, 1], [1, 3]],
    "ill2": [[1000, 0], [0, 1]],
    "illdense2": [[1000, 30], [30, 1]],
    "rep2": [[3, 0], [0, 3]],
    "diag3": [[1, 0, 0], [0, 2, 0], [0, 0, 7]],
    "dense3": [[4, 1, 0], [1, 3, 1], [0, 1, 2]],
    "rep3": [[2, 0, 0], [0, 2, 0], [0, 0, 5]],
    "ill3": [[1000, 1, 0], [1, 10, 1], [0, 1, 1]],
    "indef2": [[1, 2], [2, 1]],
    "semidef2": [[1, 1], [1, 1]],
    "herm2": [[2, (1, 1)], [(1, -1), 3]],          # (re, im) entries
    "herm2ill": [[100, (0, 3)], [(0, -3), 1]],
}
PRECS = {"jacobi": None, "dense2": [[2, 1], [1, 1]], "dense3": [[2, 1, 0], [1, 2, 0], [0, 0, 1]]}


def _symmat(name, V):
    """ARBITRARY real symmetric positive definite matrix: entries are solver variables, Sylvester's criterion is the assumption"""
    n = int(name[-1])
    M = np.empty((n, n), dtype=object if V.symbolic else np.float64)
    for i in range(n):
        for j in range(i, n):
            if name.startswith("symdiag") and i != j:
                e = S.SymK.lift(Fraction(0)) if V.symbolic else 0.0
            else:
                e = V.scalar("a%d%d" % (i, j))
            M[i, j] = e
            M[j, i] = e
    for k in range(1, n + 1):
        V.assume(O.gt(_det([[M[i, j] for j in range(k)] for i in range(k)]), 0), "leading minor %d of A > 0 (A positive definite)" % k)
    return M, False


def _mat(name, V):
    if name.startswith("sym"):
        return _symmat(name, V)
    rows = MATS[name]
    n = len(rows)
    cplx = any(isinstance(e, tuple) for r in rows for e in r)
    if V.symbolic:
        M = np.empty((n, n), dtype=object)
        for i in range(n):
            for j in range(n):
                e = rows[i][j]
                M[i, j] = S.SymK.cplx(S.Rat.const(Fraction(e[0])), S.Rat.const(Fraction(e[1]))) if isinstance(e, tuple) else S.SymK.lift(Fraction(e))
        return M, cplx
    M = np.array([[complex(*e) if isinstance(e, tuple) else float(e) for e in r] for r in rows])
    if not cplx:
        M = M.real.astype(np.float64)
    return M, cplx


def _pmat(rows, V):
    n = len(rows)
    if V.symbolic:
        M = np.empty((n, n), dtype=object)
        for i in range(n):
            for j in range(n):
                M[i, j] = S.SymK.lift(Fraction(rows[i][j]))
        return M
    return np.array(rows, dtype=np.float64)


def _det(M):
    n = len(M)
    if n == 1:
        return M[0][0]
    if n == 2:
        return M[0][0] * M[1][1] - M[0][1] * M[1][0]
    tot = 0
    for j in range(n):
        minor = [[M[i][c] for c in range(n) if c != j] for i in range(1, n)]
        tot = tot + ((-1) ** j) * M[0][j] * _det(minor)
    return tot


def _in_span(vecs, w, n):
    """w in span(vecs): every (k+1)x(k+1) minor of [vecs..., w] vanishes"""
    k = len(vecs)
    if k >= n:
        return O.const(True)
    cols = vecs + [w]
    conds = []
    for rows in itertools.combinations(range(n), k + 1):
        M = [[cols[c][r] for c in range(k + 1)] for r in rows]
        conds.append(O.eq(_det(M), 0))
    return O.all_(conds)


def h_cg(cfg, V):
    import sigpy as sp
    from sigpy import alg
    old = S.EQ_VIA_SOLVER
    # n = 3: rational-function iterates are cancelled by the preprocessing algebra before the identity is handed over;
    # n = 2: both sides go to the solver cross-multiplied
    S.EQ_VIA_SOLVER = bool(cfg.get("eq_via_solver", int(cfg["A"][-1]) == 2))
    try:
        return _cg(cfg, V, sp, alg)
    finally:
        S.EQ_VIA_SOLVER = old


def _cg(cfg, V, sp, alg):
    Amat, cplx = _mat(cfg["A"], V)
    n = Amat.shape[0]

    def vec(name, mode, default):
        if mode == "sym":
            return V.array(name, [n], cplx)
        if V.symbolic:
            return S.lift_array(np.array(default[:n]))
        return np.array(default[:n], dtype=np.complex128 if cplx else np.float64)
    b = vec("b", cfg["b"], [1, -2, 3])
    x = vec("x0", cfg["x0"], [0, 0, 0])
    x0 = x.copy()
    as_linop = cfg["form"] == "linop"
    base = None
    if cfg.get("layout") == "strided":
        # the caller's array is a non-contiguous view (every second element of a longer buffer / one column of a matrix)
        base = np.empty((2 * n,) if not as_linop else (n, 2), dtype=x.dtype)
        base[...] = 7
        if as_linop:
            base[:, 0] = x
            x = base[:, :1]
        else:
            base[::2] = x
            x = base[::2]
        assert not x.flags["C_CONTIGUOUS"] or n == 1
    if as_linop:
        Aop = sp.linop.MatMul([n, 1], Amat)
        b = b.reshape(n, 1)
        x = x.reshape(n, 1) if base is None else x
    else:
        Aop = lambda v: Amat @ v      # noqa
    P = None
    Pm = None
    if cfg["P"] == "jacobi":
        Pm = np.zeros((n, n), dtype=object if V.symbolic else np.float64)
        for i in range(n):
            Pm[i, i] = 1 / Amat[i, i]
    elif cfg["P"] and cfg["P"] in PRECS:
        Pm = _pmat(PRECS[cfg["P"]], V)
    if Pm is not None:
        P = (lambda v: Pm @ v)
    if cfg["P"] in ("same_object", "identity_linop"):
        # a preconditioner that hands back its argument ITSELF (sp.linop.Identity does, and so does any user function that scales in place):
        # r, z and p then start out as one buffer unless the solver copies
        Pm = np.zeros((n, n), dtype=object if V.symbolic else np.float64)
        for i in range(n):
            Pm[i, i] = S.SymK.lift(Fraction(1)) if V.symbolic else 1.0
        for i in range(n):
            for j in range(n):
                if i != j:
                    Pm[i, j] = S.SymK.lift(Fraction(0)) if V.symbolic else 0.0
        P = (lambda v: v) if cfg["P"] == "same_object" else sp.linop.Identity(list(np.shape(b)))
    tol = 0
    if cfg["tol"] == "sym":
        tol = V.scalar("tol")
        V.assume(tol > 0, "tol > 0")
    max_iter = cfg["max_iter"]
    cg = alg.ConjugateGradient(Aop, b, x, P=P, max_iter=max_iter, tol=tol)
    obl = [("x_is_callers_array", O.const(cg.x is x))]
    bf = np.ravel(b)
    r0 = bf - Amat @ np.ravel(x0)
    z0 = r0 if Pm is None else Pm @ r0
    PA = Amat if Pm is None else Pm @ Amat
    k = 0
    kmax = cfg["kmax"]
    Ainv_b = None
    prev_err = None
    while not cg.done():
        if k >= kmax:
            break
        xb = np.ravel(cg.x).copy()
        refresh = cg.iter < cg.max_iter - 1
        cg.update()
        k += 1
        obl.append(("iter_advanced_%d" % k, O.const(cg.iter == k)))
        if cg.not_positive_definite:
            obl.append(("breakdown_state_unchanged_%d" % k, O.eq(np.ravel(cg.x), xb)))
            obl.append(("breakdown_done_%d" % k, O.const(bool(cg.done()))))
            if cfg.get("pd", True) and k == 1:
                # for positive definite A the curvature test can only fail at p = 0, i.e. an already exact solution
                # (asserted at the first update; later ones exceed the solver budget and follow from the Galerkin conditions)
                obl.append(("breakdown_only_at_solution_%d" % k, O.eq(bf - Amat @ np.ravel(cg.x), np.zeros(n))))
            break
        xk = np.ravel(cg.x)
        rk = bf - Amat @ xk
        if refresh:
            obl.append(("tracked_residual_%d" % k, O.eq(np.ravel(cg.r), rk)))
        if cfg.get("pd", True):
            ks = [z0]
            for _ in range(k - 1):
                ks.append(PA @ ks[-1])
            ks = ks[:n]
            obl.append(("galerkin_orthogonal_%d" % k, O.all_([O.eq(O.vdot(v, rk), 0) for v in ks])))
            obl.append(("iterate_in_krylov_%d" % k, _in_span([list(v) for v in ks], list(xk - np.ravel(x0)), n)))
            if k >= n:
                obl.append(("exact_solution_after_n_%d" % k, O.eq(rk, np.zeros(n))))
            if cfg.get("anorm") and not cplx:
                # direct monotonicity of the A-norm error (e = x - A^-1 b; e^T A e = r^T A^-1 r)
                if Ainv_b is None:
                    Ainv_b = _solve(Amat, V)
                    r_init = bf - Amat @ np.ravel(x0)
                    prev_err = O.vdot(r_init, Ainv_b @ r_init)
                err = O.vdot(rk, Ainv_b @ rk)
                obl.append(("anorm_error_nonincreasing_%d" % k, O.le(err, prev_err)))
                prev_err = err
    obl.append(("at_most_max_iter_updates", O.const(k <= max_iter)))
    obl.append(("solution_in_callers_array", O.eq(x, cg.x)))
    if base is not None:
        view = base[:, :1] if as_linop else base[::2]
        other = base[:, 1] if as_linop else base[1::2]
        obl.append(("solution_written_through_the_view", O.eq(np.ravel(view), np.ravel(cg.x))))
        obl.append(("rest_of_the_buffer_untouched", O.eq(other, np.full(other.shape, 7))))
    return obl


def _solve(Amat, V):
    """exact inverse of the concrete matrix (adjugate / det) in the current value domain"""
    n = Amat.shape[0]
    det = _det([[Amat[i, j] for j in range(n)] for i in range(n)])
    inv = np.empty((n, n), dtype=Amat.dtype)
    for i in range(n):
        for j in range(n):
            minor = [[Amat[r, c] for c in range(n) if c != i] for r in range(n) if r != j]
            inv[i, j] = ((-1) ** (i + j)) * _det(minor) / det
    return inv


def h_cg_state(cfg, V):
    """inductive step (covers update histories of any length): from ANY state with  r = b - A x,  rzold = <r, P r>,  <p, r> = rzold  one real
    update re-establishes these invariants and does not increase the energy 0.5 x^T A x - b^T x (= A-norm error up to a constant)"""
    import sigpy as sp
    from sigpy import alg
    Amat, cplx = _mat(cfg["A"], V)
    n = Amat.shape[0]
    b = V.array("b", [n], False)
    x = V.array("x", [n], False)
    pdir = V.array("p", [n], False)
    Pm = None
    if cfg.get("P") == "jacobi":
        Pm = np.zeros((n, n), dtype=object if V.symbolic else np.float64)
        for i in range(n):
            Pm[i, i] = 1 / Amat[i, i]
    x_in = x.copy()
    cg = alg.ConjugateGradient(lambda v: Amat @ v, b, x, P=(None if Pm is None else (lambda v: Pm @ v)), max_iter=5, tol=0)
    r0 = b - Amat @ x_in
    z0 = r0 if Pm is None else Pm @ r0
    rz0 = O.vdot(r0, z0)
    V.assume(O.eq(O.vdot(pdir, r0), rz0), "invariant: <p, r> = <r, P r>")
    cg.r = np.array(r0, copy=True)
    cg.p = np.array(pdir, copy=True)
    cg.rzold = rz0
    cg.iter = cfg.get("iter", 1)

    def energy(v):
        return O.vdot(v, Amat @ v) * Fraction(1, 2) - O.vdot(b, v) if V.symbolic else 0.5 * float(np.real(O.vdot(v, Amat @ v))) - float(np.real(O.vdot(b, v)))
    e0 = energy(x_in)
    cg.update()
    if cg.not_positive_definite:
        return [("breakdown_state_unchanged", O.eq(cg.x, x_in)), ("breakdown_only_for_zero_direction", O.eq(pdir, np.zeros(n)))]
    r1 = b - Amat @ np.ravel(cg.x)
    z1 = r1 if Pm is None else Pm @ r1
    return [("x_is_callers_array", O.const(cg.x is x)),
            ("tracked_residual_invariant", O.eq(np.ravel(cg.r), r1)),
            ("rzold_invariant", O.eq(cg.rzold, O.vdot(r1, z1))),
            ("direction_invariant", O.eq(O.vdot(np.ravel(cg.p), r1), O.vdot(r1, z1))),
            ("new_residual_orthogonal_to_old_direction", O.eq(O.vdot(pdir, r1), 0)),
            # certificate of the energy decrease:  (E(x) - E(x')) * 2 pAp = rzold^2  with  pAp > 0 on this path
            ("energy_drop_identity", O.eq((e0 - energy(np.ravel(cg.x))) * 2 * O.vdot(pdir, Amat @ pdir), rz0 * rz0)),
            ("curvature_positive", O.gt(O.vdot(pdir, Amat @ pdir), 0)),
            ("energy_nonincreasing", O.le(energy(np.ravel(cg.x)), e0) if n <= 2 else O.const(True)),
            ("resid_is_sqrt_rz", O.eq(S.SymK.lift(cg.resid) * cg.resid if V.symbolic else cg.resid ** 2, O.vdot(r1, z1)))]


HARNESSES = {"cg": h_cg, "cg_state": h_cg_state}


def configs(tier, seed):
    full = tier == "thorough"
    out = []

    def add(A, b, x0, P, form, max_iter, tol, kmax, **kw):
        d = {"id": "cg:%s:b=%s:x0=%s:P=%s:%s:max_iter=%d:tol=%s" % (A, b, x0, P, form, max_iter, tol), "h": "cg", "A": A, "b": b, "x0": x0, "P": P,
             "form": form, "max_iter": max_iter, "tol": tol, "kmax": kmax, "max_paths": 200}
        d.update(kw)
        out.append(d)
    for A in ("diag2", "dense2", "ill2", "illdense2", "rep2"):
        for P in (None, "jacobi", "dense2"):
            for mi in (1, 2, 3):
                add(A, "sym", "sym", P, "func", mi, "0", 3, anorm=(P is None))
        add(A, "sym", "sym", None, "linop", 2, "0", 2)
        add(A, "sym", "sym", None, "func", 3, "sym", 3)
        if A in ("dense2", "rep2") or full:
            out.append(dict(out[-2], id=out[-2]["id"] + ":strided", layout="strided"))
            out.append(dict(out[-1], id=out[-1]["id"] + ":strided", layout="strided"))
    for A in ("diag3", "dense3", "rep3", "ill3"):
        add(A, "sym", "zero", None, "func", 3, "0", 2, cost=30)
        add(A, "zero", "sym", None, "func", 2, "0", 2, cost=30)
        add(A, "sym", "zero", "jacobi", "func", 4, "0", 2, cost=30)
        add(A, "sym", "zero", None, "func", 1, "0", 1)
        if full:
            # (n = 3 with b AND x0 symbolic over 3 updates needs > 30 min per matrix: outside, see OUTSIDE; the inductive cg_state step covers it)
            add(A, "sym", "zero", "dense3", "func", 3, "0", 3, cost=300)
            add(A, "sym", "zero", None, "linop", 3, "sym", 3, cost=300)
    for A in ("indef2", "semidef2"):
        add(A, "sym", "sym", None, "func", 3, "0", 2, pd=False)
        add(A, "sym", "zero", None, "linop", 2, "0", 2, pd=False)
    for A in ("diag2", "dense2", "ill2", "rep2") + (("dense3", "ill3", "rep3") if full else ("dense3",)):
        for P in (None, "jacobi"):
            out.append({"id": "cg_state:%s:P=%s" % (A, P), "h": "cg_state", "A": A, "P": P, "max_paths": 200, "cost": 20})
    for A in ("dense2", "sym2", "dense3"):
        add(A, "sym", "zero", "same_object", "func", 3, "0", 3, cost=60)
    add("dense2", "sym", "sym", "identity_linop", "linop", 3, "0", 2, cost=60)
    # ARBITRARY symmetric positive definite A (entries are solver variables, Sylvester's criterion assumed)
    for P in (None, "jacobi"):
        out.append({"id": "cg_state:sym2:P=%s" % P, "h": "cg_state", "A": "sym2", "P": P, "max_paths": 200, "cost": 60})
    add("sym2", "sym", "zero", None, "func", 2, "0", 1, cost=60)
    add("sym2", "sym", "zero", None, "func", 3, "0", 2, cost=100)
    add("sym2", "sym", "sym", "jacobi", "func", 3, "0", 3, cost=100)
    add("sym3", "sym", "zero", None, "func", 3, "0", 1, cost=100)
    if full:
        # measured on the unchanged tree (loaded machine): 510 s, 330 s, 340 s, 160 s.  Outside (900 s budget exceeded / z3 unknown): sym2 with a dense
        # preconditioner, two or more unrolled updates with an arbitrary 3x3 A, the inductive step with an arbitrary 3x3 A and Jacobi preconditioner
        add("sym2", "sym", "sym", None, "func", 3, "0", 3, cost=600, anorm=True)
        add("sym2", "sym", "sym", None, "linop", 2, "sym", 2, cost=400)
        out.append(dict(out[-1], id=out[-1]["id"] + ":strided", layout="strided"))
        out.append({"id": "cg_state:sym3:P=None", "h": "cg_state", "A": "sym3", "P": None, "max_paths": 200, "cost": 300})
    add("herm2", "sym", "zero", None, "func", 2, "0", 2, cost=50)
    if full:
        add("herm2ill", "sym", "zero", "jacobi", "func", 3, "0", 2, cost=300)
        add("herm2", "sym", "zero", None, "linop", 2, "sym", 2, cost=300)
    return out
