"""C19 - Bloch simulators are unitary, return the identity for a zero pulse and compose (SLR round trip: outside)."""
from fractions import Fraction

import numpy as np

from symsig import oracle as O
from symsig import scalar as S
from symsig.scalar import B

PROPERTY = "C19"
FUNCTIONS = ["sigpy.mri.rf.sim.abrm", "sigpy.mri.rf.sim.abrm_nd", "sigpy.mri.rf.sim.abrm_hp", "sigpy.mri.rf.sim.abrm_ptx",
             "sigpy.mri.rf.optcont.blochsim"]
BOUNDS = {"quick": "waveform length Nt <= 2 (composition: 1+1), positions Ns <= 2 (abrm_ptx: Ns in {1, 4}), 1-2 spatial dims, 1-2 transmit channels; "
                   "RF samples (complex), gradients, positions, off-resonance and dwell time symbolic",
          "thorough": "Nt <= 3 (composition 1+1, 2+1, 1+2), Ns <= 2, 1-3 spatial dims"}
OUTSIDE = ["the inverse-SLR round trip (b2a/mag2mp/ab2rf/dzrf: log/exp/Hilbert transform, filter design and polynomial root finding are numeric)",
           "waveforms longer than the bound (the composition law makes longer waveforms products of the verified steps)",
           "abrm/abrm_nd: the eps=1e-16 regulariser makes each step unitary only up to eps*phi/2; asserted within 1e-9 for rotation angles phi <= 100 rad",
           "abrm/abrm_nd unitarity is decided for one sample from the initial state (two eps-regularised samples and the balanced rewinder after an RF sample "
           "are beyond z3's non-linear budget: unknown after 300 s); the rewinder is covered for the zero pulse, longer waveforms by the composition law",
           "abrm_ptx: the measure-zero samples with zero RF and zero gradient (phi = 0, handled by the code through isinf) when RF is symbolic"]
ASSUMPTIONS = ["np.cos/np.sin/np.exp(i t) of symbolic arguments: contract stub (cos^2+sin^2=1, t=0 -> (1,0), sin(t)^2 <= t^2) with the angle-addition "
               "decomposition exp(i sum_k c_k m_k) = prod_k u_k^(2 c_k) over the monomials m_k of the argument (exp is a homomorphism; distinct monomials "
               "get independent unit numbers - an over-approximation)",
               "np.angle(z): fresh theta with cos(theta)|z| = Re z, sin(theta)|z| = Im z, (z = 0 -> theta = 0)",
               "np.abs / np.sqrt -> auxiliary variable s >= 0, s^2 = v; divisions record 'denominator != 0' as a definedness assumption",
               "np.isinf on symbolic object arrays is False (values are finite reals by construction)"]
EXPLANATION = ("C19: for every simulator, with all waveform samples / positions / gradients symbolic: |a|^2+|b|^2 = 1 at every position (exact, or within "
               "1e-9 where the code adds eps); a zero RF pulse gives b = 0, |a| = 1 (a = 1 when the gradient is zero as well); simulating the "
               "concatenation of two waveforms equals the SU(2) composition of the two simulations (in the simulator's own (a, b) convention).")

TOL = Fraction(1, 10 ** 9)
REDUCE = True     # obligations are normalised modulo the defining equations s^2 = v, cos^2 = 1 - sin^2 of the auxiliary variables
CONFIG_BUDGET_S = {"quick": 900, "thorough": 1800}


def _setup(cfg):
    # angle-addition decomposition only where the code adds phases (frame factor of abrm_hp / blochsim)
    S.Ctx.TRIG_DENOM = 2 if cfg["sim"] in ("abrm_hp", "blochsim") else None
    S.Ctx.TRIG_SIN_BOUND = cfg["sim"] in ("abrm", "abrm_nd")


def _unit(a, b, exact, name="unit_norm"):
    out = []
    for i, (ai, bi) in enumerate(zip(np.ravel(a), np.ravel(b))):
        n = O.norm2([ai]) + O.norm2([bi])
        out.append(("%s_position%d" % (name, i), O.eq(n, 1) if exact else O.near(n, 1, TOL)))
    return out


def _compose(a1, b1, a2, b2, conv):
    """(a, b) of 'first 1, then 2'.  conv 'col': M = [[a, -b*], [b, a*]] (Pauly);  conv 'row': M = [[a, b], [-b*, a*]] (abrm_ptx)"""
    a1, b1, a2, b2 = [np.ravel(v) for v in (a1, b1, a2, b2)]
    if conv == "col":
        return a2 * a1 - np.conj(b2) * b1, b2 * a1 + np.conj(a2) * b1
    return a2 * a1 - b2 * np.conj(b1), a2 * b1 + b2 * np.conj(a1)


def _same(p, q, exact):
    p, q = np.ravel(p), np.ravel(q)
    return O.eq(p, q) if exact else O.near(p, q, TOL)


class Sim:
    """uniform driver: make(V, nt, tag) -> symbolic waveform pieces; run(pieces...) -> (a, b)"""

    def __init__(self, cfg, V):
        self.cfg, self.V = cfg, V
        self.name = cfg["sim"]
        self.ns = cfg.get("ns", 1)
        self.nd = cfg.get("nd", 1)
        self.exact = self.name in ("abrm_hp", "abrm_ptx", "blochsim")
        self.conv = "row" if self.name == "abrm_ptx" else "col"
        n = self.name
        if n == "abrm":
            self.x = V.array("x", [self.ns], False)
        elif n in ("abrm_nd", "abrm_ptx") or (n == "blochsim" and self.nd > 0 and cfg.get("matrix", True)):
            self.x = V.array("x", [self.ns, self.nd], False)
        else:
            self.x = V.array("x", [self.ns], False)
        if n == "abrm_hp":
            self.dom = V.scalar("dom0dt") if cfg.get("dom") else 0
        if n == "abrm_ptx":
            self.nc = cfg.get("nc", 1)
            self.dt = V.scalar("dt")
            V.assume(self.dt > 0, "dt > 0")
            self.sens = V.array("sens", [self.nc, int(round(self.ns ** 0.5)), int(round(self.ns ** 0.5))], True) if cfg.get("sens") else None
            self.fmap = V.array("fmap", [self.ns], False) if cfg.get("fmap") else None

    def wave(self, nt, tag, zero_rf=False, zero_g=False):
        V, n = self.V, self.name
        w = {}
        if n == "abrm_ptx":
            w["rf"] = np.zeros((self.nc, nt)) if zero_rf else V.array("rf" + tag, [self.nc, nt], True)
        else:
            w["rf"] = np.zeros(nt, dtype=complex) if zero_rf else V.array("rf" + tag, [nt], True)
        if n in ("abrm_nd", "abrm_ptx") or (n == "blochsim" and np.ndim(self.x) == 2):
            w["g"] = np.zeros((nt, self.nd)) if zero_g else V.array("g" + tag, [nt, self.nd], False)
        elif n in ("abrm_hp", "blochsim"):
            w["g"] = np.zeros(nt) if zero_g else V.array("g" + tag, [nt], False)
        return w

    def bound(self, ws):
        """rotation angle per sample <= 100 rad for the eps-regularised simulators (box on inputs)"""
        if self.exact:
            return
        self.V.box(7)

    def run(self, w, xscale=1):
        from sigpy.mri.rf import sim, optcont
        n = self.name
        x = self.x * xscale if not (isinstance(xscale, int) and xscale == 1) else self.x
        if n == "abrm":
            return sim.abrm(w["rf"], x, self.cfg.get("balanced", False))
        if n == "abrm_nd":
            return sim.abrm_nd(w["rf"], x, w["g"])
        if n == "abrm_hp":
            return sim.abrm_hp(w["rf"], w["g"], x, self.dom)
        if n == "blochsim":
            return optcont.blochsim(w["rf"], x, w["g"])
        if n == "abrm_ptx":
            a, b, m, mz = sim.abrm_ptx(w["rf"], x, w["g"], self.dt, fmap=self.fmap, sens=self.sens)
            self.m, self.mz = m, mz
            return a, b
        raise KeyError(n)

    @staticmethod
    def cat(w1, w2):
        out = {}
        for k in w1:
            ax = 1 if (k == "rf" and np.ndim(w1[k]) == 2) else 0
            out[k] = np.concatenate([w1[k], w2[k]], axis=ax)
        return out


def h_unitary(cfg, V):
    _setup(cfg)
    sm = Sim(cfg, V)
    w = sm.wave(cfg["nt"], "")
    sm.bound([w])
    a, b = sm.run(w)
    obl = _unit(a, b, sm.exact) + [("one_value_per_position", O.const(np.size(a) == sm.ns and np.size(b) == sm.ns))]
    if sm.name == "abrm_ptx":
        m, mz = np.ravel(sm.m), np.ravel(sm.mz)
        for i, (mi, zi) in enumerate(zip(m, mz)):
            obl.append(("magnetisation_on_unit_sphere_position%d" % i, O.eq(4 * O.norm2([mi]) + O.norm2([zi]), 1)))
    return obl


def h_zero(cfg, V):
    _setup(cfg)
    sm = Sim(cfg, V)
    w = sm.wave(cfg["nt"], "", zero_rf=True, zero_g=cfg.get("zero_g", False))
    sm.bound([w])
    a, b = sm.run(w)
    a, b = np.ravel(a), np.ravel(b)
    obl = [("beta_is_zero", O.eq(b, np.zeros(len(b))))] + _unit(a, np.zeros(len(a)), sm.exact, "alpha_has_unit_modulus")
    if cfg.get("zero_g") and not cfg.get("fmap") and not cfg.get("dom") and sm.name != "abrm":
        obl.append(("alpha_is_one", _same(a, np.ones(len(a)), sm.exact)))
    return obl


def h_compose(cfg, V):
    _setup(cfg)
    sm = Sim(cfg, V)
    n1, n2 = cfg["n1"], cfg["n2"]
    w1, w2 = sm.wave(n1, "p"), sm.wave(n2, "q")
    sm.bound([w1, w2])
    if sm.name == "abrm":
        # abrm uses the implicit gradient 2 pi / len(rf): the parts see the same gradient when x is rescaled by len(part)/len(total)
        a1, b1 = sm.run(w1, Fraction(n1, n1 + n2) if V.symbolic else n1 / (n1 + n2))
        a2, b2 = sm.run(w2, Fraction(n2, n1 + n2) if V.symbolic else n2 / (n1 + n2))
    else:
        a1, b1 = sm.run(w1)
        a2, b2 = sm.run(w2)
    a, b = sm.run(Sim.cat(w1, w2))
    ca, cb = _compose(a1, b1, a2, b2, sm.conv)
    return [("alpha_of_concatenation_is_composition", _same(a, ca, sm.exact)),
            ("beta_of_concatenation_is_composition", _same(b, cb, sm.exact))]


def h_rewinder(cfg, V):
    """abrm(..., balanced=True) = the unbalanced simulation followed by the rewinder rotation; the rewinder is a gradient-only sample of
    area -pi*x, i.e. what abrm itself computes for one zero-RF sample at position -x/2 (implicit gradient 2 pi)"""
    _setup(cfg)
    from sigpy.mri.rf import sim
    ns, nt = cfg["ns"], cfg["nt"]
    x = V.array("x", [ns], False)
    rf = V.array("rf", [nt], True)
    V.box(7)
    a, b = sim.abrm(rf, x, False)
    ab, bb = sim.abrm(rf, x, True)
    ar, br = sim.abrm(np.zeros(1, dtype=complex), x * (Fraction(-1, 2) if V.symbolic else -0.5), False)
    ca, cb = _compose(a, b, ar, br, "col")
    return [("balanced_alpha_is_rewinder_after_unbalanced", _same(ab, ca, False)),
            ("balanced_beta_is_rewinder_after_unbalanced", _same(bb, cb, False)),
            ("rewinder_has_no_beta", O.eq(np.ravel(br), np.zeros(ns)))]


HARNESSES = {"unitary": h_unitary, "zero": h_zero, "compose": h_compose, "rewinder": h_rewinder}


def configs(tier, seed):
    full = tier == "thorough"
    out = []

    def add(h, **kw):
        ident = ":".join("%s=%s" % (k, kw[k]) for k in sorted(kw) if k != "cost")
        kw.update(id="%s:%s" % (h, ident), h=h, max_paths=600)
        kw.setdefault("cost", 10)
        out.append(kw)

    nts = (1, 2, 3) if full else (1, 2)
    for nt in nts:
        for ns in (1, 2):
            add("unitary", sim="abrm_hp", nt=nt, ns=ns, dom=(ns == 2), cost=10 * nt)
            for nd in ((1, 2, 3) if full else (1, 2)):
                if nt == 3 and nd > 1:
                    continue        # three samples x matrix gradients: the normal form needs > 1 h
                add("unitary", sim="blochsim", nt=nt, ns=ns, nd=nd, cost=10 * nt)
            add("unitary", sim="blochsim", nt=nt, ns=ns, nd=0, matrix=False, cost=10 * nt)
        for ns, nc, sens, fmap in ((1, 1, False, False), (1, 2, True, False), (4, 1, False, True)) + (((4, 2, True, True),) if full else ()):
            if (ns == 4 and nt > 1 and not full) or (nc == 2 and nt > 1) or (ns == 4 and nt > 2):
                continue        # two channels with sensitivities x two samples: the normal form has ~1e5 terms (15 min)
            add("unitary", sim="abrm_ptx", nt=nt, ns=ns, nd=2, nc=nc, sens=sens, fmap=fmap, cost=40 * nt)
    # eps-regularised simulators: one sample (longer waveforms follow from the composition law, which is exact and checked below)
    for ns in (1, 2):
        add("unitary", sim="abrm", nt=1, ns=ns, balanced=False, cost=30)
        for nd in ((1, 2, 3) if full else (1, 2)):
            if nd == 3 and ns == 2:
                continue        # z3 unknown after 300 s
            add("unitary", sim="abrm_nd", nt=1, ns=ns, nd=nd, cost=30)
    for name in ("abrm_nd", "abrm_hp", "blochsim", "abrm_ptx"):
        for zg in (False, True):
            if name == "abrm_ptx" and zg:
                continue        # phi = 0 at every sample: the isinf branch of the float code, see OUTSIDE
            add("zero", sim=name, nt=(1 if name == "abrm_nd" else 2), ns=(1 if name == "abrm_ptx" else 2),
                nd=(2 if name in ("abrm_nd", "abrm_ptx", "blochsim") else 1), zero_g=zg, cost=5)
    add("zero", sim="abrm", nt=1, ns=2, balanced=False, cost=30)
    add("zero", sim="abrm", nt=1, ns=1, balanced=True, cost=60)
    add("zero", sim="abrm_hp", nt=2, ns=1, dom=True, cost=5)
    splits = ((1, 1), (2, 1), (1, 2)) if full else ((1, 1),)
    for n1, n2 in splits:
        for name in ("abrm_nd", "abrm_hp", "blochsim", "abrm_ptx"):
            add("compose", sim=name, n1=n1, n2=n2, ns=1, nd=(2 if name in ("abrm_nd", "abrm_ptx") else 1), dom=(name == "abrm_hp"), cost=60 * (n1 + n2))
    add("compose", sim="abrm", n1=1, n2=1, ns=1, cost=100)
    add("rewinder", sim="abrm", nt=1, ns=1, cost=100)
    add("rewinder", sim="abrm", nt=2, ns=1, cost=200)
    if full:
        add("compose", sim="abrm", n1=2, n2=2, ns=1, cost=400)
        add("compose", sim="blochsim", n1=1, n2=1, ns=2, nd=2, cost=200)
    return out
