"""Generated operator expression trees (programs) for C01-C04."""
import itertools
import random

from . import catalogue as C

# tree sub-catalogue: small operators that combine in many ways
TL = [
    ["Identity", [2, 3]],
    ["Multiply", [2, 3], [2, 3], False],
    ["Multiply", [2, 3], [3], True],
    ["Multiply", [2, 3], "cplx", False],
    ["Flip", [2, 3], [-1]],
    ["Circshift", [2, 3], [1], [1]],
    ["FFT", [2, 3], [-1], True],
    ["IFFT", [2, 3], None, True],
    ["Transpose", [2, 3], None],
    ["Transpose", [3, 2], None],
    ["Reshape", [6], [2, 3]],
    ["Reshape", [2, 3], [6]],
    ["Reshape", [3, 2], [2, 3]],
    ["Resize", [2, 3], [4, 2], None, None],
    ["Resize", [4, 2], [2, 3], None, None],
    ["Resize", [2, 2], [2, 3], None, None],
    ["Sum", [2, 3], [0]],
    ["Tile", [2, 3], [0]],
    ["Sum", [2, 3], [1]],
    ["Tile", [2, 3], [-1]],
    ["Slice", [2, 3], [[None, None, None], [None, None, 2]]],
    ["Embed", [2, 3], [[None, None, None], [None, None, 2]]],
    ["Downsample", [2, 3], [1, 2], None],
    ["Upsample", [2, 3], [1, 2], None],
    ["MatMul", [2, 3], [2, 2], False],
    ["MatMul", [2, 3], [2, 4], True],
    ["RightMatMul", [2, 3], [3, 3], False],
    ["RightMatMul", [2, 3], [3, 2], False],
    ["ConvolveData", [2, 3], [2], "full", None, False],
    ["ConvolveData", [2, 3], [2], "valid", None, False],
    ["ConvolveFilter", [2], [2, 3], "valid", None, False],
    ["ArrayToBlocks", [2, 3], [2], [1]],
    ["BlocksToArray", [2, 3], [2], [1]],
    ["FiniteDifference", [2, 3], [1]],
    ["Interpolate", [2, 3], [[0.3], [-1.6]], "spline", 2, 1],
    ["Gridding", [2, 3], [[0.5], [1.25]], "spline", 2, 1],
    ["NUFFT", [2, 3], [[0.3], [-1.2], [0.9]], 1.25, 3],
    ["Identity", [3]],
    ["Multiply", [3], [3], False],
    ["FFT", [3], None, True],
    ["Resize", [3], [2], None, None],
    ["Identity", [2]],
    ["Multiply", [2], "cplx", True],
]

_shape_cache = {}


def shapes(spec):
    k = C.sid(spec)
    if k not in _shape_cache:
        _shape_cache[k] = C.io_shapes(spec)
    return _shape_cache[k]


CORE = [
    ["Mul", [["FFT", [2, 3], [-1], True], ["Multiply", [2, 3], [2, 3], False]]],
    ["Compose", [["Sum", [2, 3], [0]], ["Multiply", [2, 3], [3], True], ["Flip", [2, 3], [-1]]]],
    ["Mul", [["Mul", [["Reshape", [6], [2, 3]], ["Circshift", [2, 3], [1], [1]]]], ["Mul", [["Transpose", [3, 2], None], ["Reshape", [3, 2], [2, 3]]]]]],
    ["Add", [["Identity", [2, 3]], ["Multiply", [2, 3], [2, 3], False], ["Flip", [2, 3], [-1]]]],
    ["AddC", [["FFT", [2, 3], [-1], True], ["Circshift", [2, 3], [1], [1]]]],
    ["Sub", ["Identity", [2, 3]], ["Circshift", [2, 3], [1], [1]]],
    ["Neg", ["Multiply", [2, 3], [3], True]],
    ["ScaleL", "cplx", ["FFT", [2, 3], [-1], True]],
    ["ScaleR", ["Resize", [4, 2], [2, 3], None, None], "cplx"],
    ["ScaleL", "cfloat", ["Sum", [2, 3], [0]]],
    ["ScaleL", "real", ["MatMul", [2, 3], [2, 2], False]],
    ["ScaleR", ["Transpose", [2, 3], None], "int"],
    ["Hstack", [["Identity", [2, 3]], ["Multiply", [2, 3], [2, 3], False]], 0],
    ["Hstack", [["Identity", [2, 3]], ["Flip", [2, 3], [-1]], ["Multiply", [2, 3], [3], True]], 1],
    ["Hstack", [["Sum", [2, 3], [0]], ["Identity", [3]]], None],
    ["Vstack", [["Identity", [2, 3]], ["FFT", [2, 3], [-1], True]], 0],
    ["Vstack", [["Identity", [2, 3]], ["Resize", [2, 2], [2, 3], None, None]], 1],
    ["Vstack", [["Reshape", [6], [2, 3]], ["Sum", [2, 3], [0]]], None],
    ["Diag", [["Identity", [2, 3]], ["Multiply", [2, 3], [2, 3], False]], 0, 1],
    ["Diag", [["Sum", [2, 3], [0]], ["Reshape", [6], [2, 3]]], None, 0],
    ["Diag", [["Transpose", [2, 3], None], ["Transpose", [2, 3], None]], 1, 0],
    ["Diag", [["Identity", [3]], ["Multiply", [2], "cplx", True]], None, None],
    ["Conj", ["Multiply", [2, 3], [2, 3], False]],
    ["Conj", ["FFT", [2, 3], [-1], True]],
    ["Conj", ["Mul", [["MatMul", [2, 3], [2, 2], False], ["Multiply", [2, 3], "cplx", False]]]],
    ["H", ["Mul", [["FFT", [2, 3], [-1], True], ["Multiply", [2, 3], [2, 3], False]]]],
    ["H", ["Hstack", [["Identity", [2, 3]], ["Multiply", [2, 3], [2, 3], False]], 1]],
    ["N", ["Mul", [["Sum", [2, 3], [0]], ["Multiply", [2, 3], [2, 3], False]]]],
    ["N", ["Vstack", [["Identity", [2, 3]], ["FFT", [2, 3], [-1], True]], 0]],
    ["Mul", [["NUFFT", [2, 3], [[0.3], [-1.2], [0.9]], 1.25, 3], ["Multiply", [2, 3], [2, 3], False]]],
    ["Add", [["Interpolate", [2, 3], [[0.3], [-1.6]], "spline", 2, 1], ["Slice", [2, 3], [[None, None, None], [None, None, 2]]]]],
    ["Hstack", [["Identity", [2, 3]], ["Multiply", [2, 3], [2, 3], False]], -1],
    ["Vstack", [["Identity", [2, 3]], ["FFT", [2, 3], [-1], True]], -2],
    ["Vstack", [["Identity", [2, 3]], ["Resize", [2, 2], [2, 3], None, None]], -1],
    ["Diag", [["Identity", [2, 3]], ["Multiply", [2, 3], [2, 3], False]], -2, -1],
    ["Hstack", [["Sum", [2, 3], [0]], ["Sum", [2, 3], [0]]], -2],
    # sums whose FIRST term returns a view of its input (in-place accumulation would write through it), 2 and 3 terms
    ["Add", [["Transpose", [2, 3], None], ["Transpose", [2, 3], None]]],
    ["Add", [["Flip", [2, 3], [-1]], ["Identity", [2, 3]], ["Multiply", [2, 3], [2, 3], False]]],
    ["AddC", [["Reshape", [2, 3], [6]], ["Reshape", [2, 3], [6]], ["Mul", [["Multiply", [2, 3], [3], True], ["Reshape", [2, 3], [6]]]]]],
    ["Sub", ["Slice", [2, 3], [[None, None, None], [None, None, 2]]], ["Slice", [2, 3], [[None, None, None], [None, None, 2]]]],
    ["Sub", ["Sub", ["Transpose", [2, 3], None], ["Mul", [["Transpose", [2, 3], None], ["Multiply", [2, 3], "cplx", False]]]], ["Transpose", [2, 3], None]],
    ["Add", [["Circshift", [2, 3], [1], [1]], ["Flip", [2, 3], [-1]], ["Identity", [2, 3]]]],
    # stacks of blocks whose output rank differs from their input rank, negative axes
    ["Vstack", [["Reshape", [2, 3], [6]], ["Reshape", [2, 3], [6]]], -1],
    ["Vstack", [["Reshape", [2, 3], [6]], ["Reshape", [2, 3], [6]]], -2],
    ["Hstack", [["Reshape", [6], [2, 3]], ["Reshape", [6], [2, 3]]], -1],
    ["Hstack", [["Reshape", [6], [2, 3]], ["Reshape", [6], [2, 3]]], -2],
    ["Hstack", [["Sum", [2, 3], [0]], ["Sum", [2, 3], [0]]], -1],
    ["Diag", [["Reshape", [2, 3], [6]], ["Reshape", [2, 3], [6]]], -1, -1],
    ["Diag", [["Reshape", [6], [2, 3]], ["Reshape", [6], [2, 3]]], -1, -2],
    ["Diag", [["Sum", [2, 3], [1]], ["Sum", [2, 3], [1]]], -1, -2],
    ["Vstack", [["Sum", [2, 3], [0]], ["Sum", [2, 3], [0]]], -1],
]


def _stackable(shs, axis):
    """shapes that can be concatenated along axis (None: flattened)"""
    if axis is None:
        return True
    nd = len(shs[0])
    if any(len(s) != nd for s in shs) or not -nd <= axis < nd:
        return False
    ax = axis % nd
    return all(s[:ax] + s[ax + 1:] == shs[0][:ax] + shs[0][ax + 1:] for s in shs)


def depth2(pool):
    """every rule instance over ordered pairs of the pool (exhaustive)"""
    out = []
    info = [(s, shapes(s)) for s in pool]
    for s, (i, o) in info:
        out += [["Neg", s], ["Conj", s], ["H", s], ["N", s], ["ScaleL", "cplx", s], ["ScaleR", s, "cplx"]]
    for (a, (ai, ao)), (b, (bi, bo)) in itertools.product(info, info):
        if ai == bo:
            out.append(["Mul", [a, b]])
        if ai == bi and ao == bo:
            out.append(["Add", [a, b]])
            out.append(["Sub", a, b])
        if ao == bo:
            for ax in [None] + list(range(-len(ai), len(ai))):
                if _stackable([ai, bi], ax):
                    out.append(["Hstack", [a, b], ax])
        if ai == bi:
            for ax in [None] + list(range(-len(ao), len(ao))):
                if _stackable([ao, bo], ax):
                    out.append(["Vstack", [a, b], ax])
    return out


def random_tree(rnd, depth, pool_info):
    """a random well-shaped tree of the given depth; returns (spec, ishape, oshape) or None"""
    if depth == 0:
        s, (i, o) = rnd.choice(pool_info)
        return s, i, o
    for _ in range(40):
        rule = rnd.choice(["Mul", "Mul", "Add", "Sub", "Neg", "ScaleL", "ScaleR", "Hstack", "Vstack", "Diag", "Conj", "H", "N"])
        a = random_tree(rnd, depth - 1, pool_info)
        if a is None:
            continue
        sa, ai, ao = a
        if rule in ("Neg", "Conj"):
            return [rule, sa], ai, ao
        if rule == "H":
            return ["H", sa], ao, ai
        if rule == "N":
            return ["N", sa], ai, ai
        if rule == "ScaleL":
            return ["ScaleL", rnd.choice(["cplx", "real", "cfloat", "int"]), sa], ai, ao
        if rule == "ScaleR":
            return ["ScaleR", sa, rnd.choice(["cplx", "real", "cfloat"])], ai, ao
        b = random_tree(rnd, rnd.randint(0, depth - 1), pool_info)
        if b is None:
            continue
        sb, bi, bo = b
        if rule == "Mul" and ai == bo:
            return ["Mul", [sa, sb]], bi, ao
        if rule in ("Add", "Sub") and ai == bi and ao == bo:
            return (["Add", [sa, sb]] if rule == "Add" else ["Sub", sa, sb]), ai, ao
        if rule == "Hstack" and ao == bo:
            axes = [ax for ax in [None] + list(range(-len(ai), len(ai))) if _stackable([ai, bi], ax)]
            if axes:
                ax = rnd.choice(axes)
                return ["Hstack", [sa, sb], ax], _cat([ai, bi], ax), ao
        if rule == "Vstack" and ai == bi:
            axes = [ax for ax in [None] + list(range(-len(ao), len(ao))) if _stackable([ao, bo], ax)]
            if axes:
                ax = rnd.choice(axes)
                return ["Vstack", [sa, sb], ax], ai, _cat([ao, bo], ax)
        if rule == "Diag":
            iaxes = [ax for ax in [None] + list(range(-len(ai), len(ai))) if _stackable([ai, bi], ax)]
            oaxes = [ax for ax in [None] + list(range(-len(ao), len(ao))) if _stackable([ao, bo], ax)]
            if iaxes and oaxes:
                ia, oa = rnd.choice(iaxes), rnd.choice(oaxes)
                return ["Diag", [sa, sb], oa, ia], _cat([ai, bi], ia), _cat([ao, bo], oa)
    return None


def _cat(shs, ax):
    if ax is None:
        n = 0
        for s in shs:
            p = 1
            for d in s:
                p *= d
            n += p
        return [n]
    r = list(shs[0])
    ax %= len(r)
    r[ax] = sum(s[ax] for s in shs)
    return r


PARAM_OPS = {"MatMul", "RightMatMul", "ConvolveData", "ConvolveFilter", "ConvolveDataAdjoint", "ConvolveFilterAdjoint", "Sense"}


def pdeg(spec):
    """polynomial degree of the tree's output in its symbolic operator parameters (N doubles it): bounds the size of the normal forms"""
    op = spec[0]
    if op not in C.TREE_OPS:
        if op in PARAM_OPS:
            return 1
        if op == "Multiply":
            return 1 if (isinstance(spec[2], list) or spec[2] in ("cplx", "real")) else 0
        return 0
    ks = [pdeg(k) for k in C.kids_of(spec)]
    if op in ("Compose", "Mul"):
        return sum(ks)
    if op == "N":
        return 2 * ks[0]
    if op in ("ScaleL", "ScaleR"):
        sc = spec[1] if op == "ScaleL" else spec[2]
        return ks[0] + (1 if sc in ("cplx", "real") else 0)
    return max(ks) if ks else 0


def _size(sh):
    p = 1
    for d in sh:
        p *= d
    return p


def tree_specs(tier, seed):
    rnd = random.Random(seed * 7919 + 13)
    out = list(CORE)
    pool_info = [(s, shapes(s)) for s in TL]
    if tier == "quick":
        n2, n3 = 240, 0
    else:
        n2, n3 = 0, 300
        out += depth2(TL)
    seen = set(C.sid(s) for s in out)
    tries = 0
    want = len(out) + n2 + n3
    while len(out) < want and tries < 20000:
        tries += 1
        depth = 2 if len(out) < len(CORE) + n2 or tier == "quick" else 3
        if tier != "quick":
            depth = 3
        r = random_tree(rnd, depth, pool_info)
        if r is None:
            continue
        s, i, o = r
        if _size(i) > 24 or _size(o) > 36 or pdeg(s) > (2 if tier == "quick" else 3):
            continue
        k = C.sid(s)
        if k in seen:
            continue
        seen.add(k)
        out.append(s)
    return out
