"""C20 - trapezoid gradient designers meet area, amplitude and slew limits."""
from fractions import Fraction

import numpy as np

from symsig import oracle as O
from symsig import scalar as S
from symsig.scalar import B

PROPERTY = "C20"
FUNCTIONS = ["sigpy.mri.rf.trajgrad.trap_grad", "sigpy.mri.rf.trajgrad.min_trap_grad", "sigpy.mri.rf.trajgrad.spokes_grad"]
BOUNDS = {"quick": "area, gmax, dgdt, dt > 0 symbolic with gmax/(dgdt dt) <= 3 and area/(gmax dt) <= 4 (<= 3 ramp and <= 6 flat samples; every "
                   "triangle/trapezoid boundary case lies inside); spokes_grad: 1-2 concrete spoke sets, symbolic gmax, dgdt, dt with the same ratio bounds",
          "thorough": "ratio bounds 5 and 8; 3 spoke sets"}
OUTSIDE = ["waveforms longer than the ratio bounds allow", "float rounding: np.linspace/sum constants are taken at their exact float value, so "
           "the area / slew assertions carry a 1e-9 relative tolerance"]
ASSUMPTIONS = ["area, gmax, dgdt, dt > 0 (any consistent units) inside the stated ratio bounds", "np.sqrt -> auxiliary variable s >= 0, s^2 = v; np.ceil/np.floor fork over integer values"]
EXPLANATION = ("C20: on every feasible path of the real designers (no exception allowed): waveform starts and ends at 0, sum*dt equals the requested area "
               "(flat-top area for min_trap_grad), |g_i| <= gmax, |g_{i+1}-g_i| <= dgdt*dt; spokes_grad: per-axis limits and 4257*dt*sum(blip) equals the "
               "requested k-space increment of every spoke transition.")

RT = Fraction(1, 10 ** 9)


def _pos(V, name):
    v = V.scalar(name)
    V.assume(v > 0, name + " > 0")
    return v


def _limits(V, rb, fb):
    area, gmax, dgdt, dt = _pos(V, "area"), _pos(V, "gmax"), _pos(V, "dgdt"), _pos(V, "dt")
    V.assume(gmax <= rb * dgdt * dt, "gmax/(dgdt dt) <= %d" % rb)
    V.assume(area <= fb * gmax * dt, "area/(gmax dt) <= %d" % fb)
    return area, gmax, dgdt, dt


def _wave_obligations(w, gmax, dgdt, dt, tol=RT):
    obl = []
    one = 1 + (tol if isinstance(gmax, S.SymK) else 1e-9)
    obl.append(("starts_at_zero", O.eq(w[0], 0)))
    obl.append(("ends_at_zero", O.eq(w[-1], 0)))
    obl.append(("amplitude_within_gmax", O.all_([B.and_(O.le(v, gmax * one), O.le(-v, gmax * one)) for v in w])))
    lim = dgdt * dt * one
    obl.append(("slew_within_limit", O.all_([B.and_(O.le(b - a, lim), O.le(a - b, lim)) for a, b in zip(w[:-1], w[1:])])))
    return obl


def _tot(w):
    s = 0
    for v in w:
        s = s + v
    return s


def h_trap(cfg, V):
    from sigpy.mri.rf import trajgrad
    area, gmax, dgdt, dt = _limits(V, cfg["rb"], cfg["fb"])
    trap, ramppts = trajgrad.trap_grad(area, gmax, dgdt, dt)
    w = list(np.ravel(trap))
    obl = _wave_obligations(w, gmax, dgdt, dt)
    obl.append(("area_exact", O.close(_tot(w) * dt, area, RT, area)))
    obl.append(("shape_is_1xN", O.const(np.ndim(trap) == 2 and np.shape(trap)[0] == 1)))
    return obl


def h_mintrap(cfg, V):
    from sigpy.mri.rf import trajgrad
    area, gmax, dgdt, dt = _limits(V, cfg["rb"], cfg["fb"])
    trap, ramppts = trajgrad.min_trap_grad(area, gmax, dgdt, dt)
    w = list(np.ravel(trap))
    obl = _wave_obligations(w, gmax, dgdt, dt)
    r = int(ramppts)
    flat = w[r + 1:len(w) - (r + 1)]
    obl.append(("has_flat_top", O.const(len(flat) >= 1)))
    if flat:
        obl.append(("flat_top_area_exact", O.close(_tot(flat) * dt, area, RT, area)))
        obl.append(("flat_top_is_flat", O.all_([O.eq(v, flat[0]) for v in flat])))
    return obl


def h_spokes(cfg, V):
    from sigpy.mri.rf import trajgrad
    gmax, dgdt, dt = _pos(V, "gmax"), _pos(V, "dgdt"), _pos(V, "dt")
    V.assume(gmax <= cfg["rb"] * dgdt * dt, "gmax/(dgdt dt) <= %d" % cfg["rb"])
    k = np.array(cfg["k"], dtype=np.float64)
    tbw, sl = cfg["tbw"], cfg["sl_thick"]
    area = Fraction(tbw / (sl / 10) / 4257)
    V.assume(gmax * dt * cfg["fb"] >= (area if V.symbolic else float(area)), "slice-select area/(gmax dt) <= %d" % cfg["fb"])
    kmax = max(abs(float(v)) for v in np.ravel(np.diff(np.vstack([k, np.zeros((1, 2))]), axis=0))) / 4257
    V.assume(gmax * dt * cfg["fb"] >= (Fraction(kmax) if V.symbolic else kmax), "blip area/(gmax dt) <= %d" % cfg["fb"])
    g = trajgrad.spokes_grad(k, tbw, sl, gmax, dgdt, dt)
    obl = [("three_axes", O.const(np.shape(g)[0] == 3))]
    subgz, _ = trajgrad.min_trap_grad(area if V.symbolic else float(area), gmax, dgdt, dt)
    L = int(np.size(subgz))
    n = k.shape[0]
    for ax, name in ((0, "gx"), (1, "gy"), (2, "gz")):
        w = list(g[ax])
        for nm, ob in _wave_obligations(w, gmax, dgdt, dt):
            obl.append(("%s_%s" % (name, nm), ob))
    dk = np.diff(np.vstack([k, np.zeros((1, 2))]), axis=0)
    for ii in range(n):
        for ax in (0, 1):
            seg = list(g[ax][ii * L:(ii + 1) * L])
            want = Fraction(float(dk[ii, ax])) if V.symbolic else float(dk[ii, ax])
            got = _tot(seg) * dt * 4257
            scale = max(abs(float(dk[ii, ax])), 1e-3)
            obl.append(("kspace_increment_spoke%d_axis%d" % (ii, ax), O.close(got, want, RT, scale)))
    return obl


HARNESSES = {"trap": h_trap, "mintrap": h_mintrap, "spokes": h_spokes}


def configs(tier, seed):
    full = tier == "thorough"
    rb, fb = (5, 8) if full else (3, 4)
    out = [{"id": "trap_grad:rb=%d:fb=%d" % (rb, fb), "h": "trap", "rb": rb, "fb": fb, "max_paths": 3000, "cost": 100},
           {"id": "min_trap_grad:rb=%d:fb=%d" % (rb, fb), "h": "mintrap", "rb": rb, "fb": fb, "max_paths": 3000, "cost": 100}]
    sets = [("2spokes", [[0.0, 0.0], [1.0, -0.5]]), ("1spoke", [[0.5, 0.25]])] + ([("3spokes", [[0.0, 0.0], [2.0, 0.0], [-1.0, 1.5]])] if full else [])
    for nm, k in sets:
        out.append({"id": "spokes_grad:%s:rb=2:fb=3" % nm, "h": "spokes", "k": k, "tbw": 4, "sl_thick": 5, "rb": 2, "fb": 3, "max_paths": 6000, "cost": 300})
    return out


CONFIG_BUDGET_S = {"quick": 900, "thorough": 1800}
