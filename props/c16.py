"""C16 - SENSE operator equals the explicit multi-coil encoding; recon apps minimise the documented objective for it."""
from fractions import Fraction
from math import ceil

import numpy as np

from symsig import oracle as O
from symsig import scalar as S
from symsig.scalar import B
from symsig.algebra import required_N
from props.c05 import _dft_oracle, _float_ref

PROPERTY = "C16"
FUNCTIONS = ["sigpy.mri.linop.Sense (incl. coil batching via Vstack)", "sigpy.mri.app._estimate_weights", "sigpy.mri.app.SenseRecon.__init__",
             "sigpy.mri.app.TotalVariationRecon.__init__", "sigpy.mri.app.L1WaveletRecon.__init__ (wavelet stubbed by an arbitrary unitary)",
             "sigpy.app.LinearLeastSquares.__init__/_get_alg/objective", "sigpy.linop.{Multiply,FFT,NUFFT,Vstack,Compose,FiniteDifference}",
             "sigpy.prox.{L1Reg,UnitaryTransform}", "sigpy.alg.{ConjugateGradient,GradientMethod,PrimalDualHybridGradient}"]
BOUNDS = {"quick": "images 2x2, 2x3, 1x4 (2-D) and 2x2x2 (3-D), 2-3 coils, every coil_batch_size in 1..coils, Cartesian and 2 concrete non-Cartesian "
                   "coordinate sets (<= 3 points), weights None / symbolic >= 0; recon apps on 1x4 / 2x2 images with 2 coils",
          "thorough": "adds 3x3, 3x2, 4x4(1 coil batch), 3 coils in 3-D, more coordinate sets (ties, far outside, duplicates), weights per coil"}
OUTSIDE = ["weights with a coil axis together with coil batching (weights are documented as k-space weights; the batched operator hands the full array to every batch)",
           "L1WaveletRecon with the real PyWavelets transform (compiled; the property conditions on unitarity, which is what the stub provides)",
           "tseg off-resonance correction, comm (multi-process), GPU devices", "that the iterative solver reaches its fixed point within max_iter "
           "(C12/C13/C14)", "non-Cartesian coordinates are concrete (the Kaiser-Bessel kernel is transcendental in them); the NUFFT itself is C06/C01"]
ASSUMPTIONS = ["weights = s^2 with s >= 0 symbolic (so that weights**0.5 = s without an auxiliary variable)",
               "non-Cartesian oracle: per-coil sigpy.nufft / nufft_adjoint of the same oversamp/width (the transform itself is not re-derived here)",
               "sigpy.app.MaxEig replaced by an arbitrary positive number (step sizes are symbolic)",
               "L1WaveletRecon: sigpy.linop.Wavelet replaced by the unitary W = i * circular shift (W != W^H; an arbitrary unitary as far as the wiring is concerned)"]
EXPLANATION = ("C16: Sense(mps, coord, weights, coil_batch_size)(x) equals, per coil, sqrt(w) * F(mps_c * x) with F the explicit centred unitary DFT matrix "
               "(Cartesian) or sigpy.nufft (non-Cartesian); every batch size gives the same forward and adjoint, and the adjoint equals the explicit "
               "sum_c conj(mps_c) F^H(sqrt(w) y_c); advertised shapes.  Recon apps: the operator, data, regulariser, G and lamda that reach "
               "LinearLeastSquares are those of the documented objective (app.A = explicit model with the estimated / given weights, app.y = sqrt(w) y, "
               "prox = prox of lamda*||.||_1 (through G or the unitary W), objective() = documented objective), the CG system equals minus the gradient of "
               "the documented objective for all x, and for consistent data the true image is a stationary point.")
REDUCE = True
CONFIG_BUDGET_S = {"quick": 900, "thorough": 1800}

COORDS = {
    "c2a": [[0.3, -0.7], [1.2, 0.4], [-0.9, 0.1]],
    "c2tie": [[0.5, -1.0], [-0.5, 1.5]],
    "c2far": [[5.25, -6.5], [0.0, 0.0]],
    "c2dup": [[0.25, 0.5], [0.25, 0.5]],
    "c3a": [[0.3, -0.7, 0.2], [-0.4, 0.6, -0.8]],
}


def _pos(V, name):
    v = V.scalar(name)
    V.assume(v > 0, name + " > 0")
    return v


class Model:
    """symbolic SENSE problem + independent explicit encoding model"""

    def __init__(self, cfg, V, weights=None):
        self.V, self.cfg = V, cfg
        self.img = list(cfg["img"])
        self.nc = cfg["nc"]
        self.nd = len(self.img)
        self.coord = np.array(COORDS[cfg["coord"]], dtype=np.float64) if cfg.get("coord") else None
        self.kshape = list(self.img) if self.coord is None else list(self.coord.shape[:-1])
        self.mps = V.array("mps", [self.nc] + self.img, True)
        self.sw = None
        self.weights = None
        wk = cfg.get("weights")
        if wk:
            wshape = ([self.nc] if wk == "percoil" else []) + self.kshape
            self.sw = V.array("sw", wshape, False)
            if V.symbolic:
                self.weights = np.empty(wshape, dtype=object)
                for i in np.ndindex(*wshape):
                    self.weights[i] = self.sw[i] * self.sw[i]
                    S.cur().register_sqrt(self.weights[i], self.sw[i])
            else:
                self.sw = np.abs(self.sw)
                self.weights = self.sw ** 2

    # ---- explicit model
    def F(self, a):
        if self.coord is None:
            if self.V.symbolic:
                return _dft_oracle(a, list(range(self.nd)), True, "ortho", False)
            return _float_ref(a, None, list(range(self.nd)), True, "ortho", False)
        import sigpy as sp
        return sp.nufft(a, self.coord)

    def FH(self, a):
        if self.coord is None:
            if self.V.symbolic:
                return _dft_oracle(a, list(range(self.nd)), True, "ortho", True)
            return _float_ref(a, None, list(range(self.nd)), True, "ortho", True)
        import sigpy as sp
        return sp.nufft_adjoint(a, self.coord, oshape=self.img)

    def swc(self, c, sw=None):
        sw = self.sw if sw is None else sw
        if sw is None:
            return 1
        return sw[c] if np.ndim(sw) == len(self.kshape) + 1 else sw

    def forward(self, x, sw=None):
        out = np.empty([self.nc] + self.kshape, dtype=object if self.V.symbolic else np.complex128)
        for c in range(self.nc):
            out[c] = self.swc(c, sw) * self.F(self.mps[c] * x)
        return out

    def adjoint(self, y, sw=None):
        acc = 0
        for c in range(self.nc):
            acc = acc + np.conj(self.mps[c]) * self.FH(self.swc(c, sw) * y[c])
        return acc


def _field(cfg):
    img = cfg["img"]
    if cfg.get("coord"):
        nd = len(COORDS[cfg["coord"]][0])
        return required_N([ceil(1.25 * n) for n in img[-nd:]], ortho=False)
    return required_N(list(img), ortho=True)


def h_sense(cfg, V):
    from sigpy.mri import linop as mlinop
    M = Model(cfg, V)
    x = V.array("x", M.img, True)
    y = V.array("y", [M.nc] + M.kshape, True)
    ref_f = M.forward(x)
    ref_a = M.adjoint(y)
    obl = []
    sizes = [None] + list(range(1, M.nc + 1))
    if cfg.get("weights") == "percoil":
        sizes = [None, M.nc]      # weights are documented as k-space weights (one coil's shape): per-coil weights are only meaningful un-batched
    for cbs in sizes:
        A = mlinop.Sense(M.mps, coord=M.coord, weights=M.weights, coil_batch_size=cbs)
        tag = "batch=%s" % cbs
        obl.append(("shapes:" + tag, O.const(list(A.ishape) == M.img and list(A.oshape) == [M.nc] + M.kshape)))
        obl.append(("forward_is_explicit_model:" + tag, O.eq(A(x), ref_f)))
        obl.append(("adjoint_is_explicit_model:" + tag, O.eq(A.H(y), ref_a)))
    return obl


def _est_weights(M, y):
    """independent oracle of the documented estimate: a k-space location is sampled iff some coil is non-zero there"""
    sw = np.zeros(M.kshape, dtype=object if M.V.symbolic else np.float64)
    for k in np.ndindex(*M.kshape):
        tot = O.norm2([y[(c,) + k] for c in range(M.nc)])
        if M.V.symbolic:
            nz = bool(tot > 0)
        else:
            nz = tot > 0
        sw[k] = 1 if nz else 0
    return sw


def _maxeig_stub(V):
    import sigpy.app as sapp
    cnt = [0]

    class _MaxEigStub:
        def __init__(self, *a, **k):
            pass

        def run(self):
            cnt[0] += 1
            return _pos(V, "maxeig%d" % cnt[0])
    return sapp, _MaxEigStub


def _build(cfg, V, cls, M, y, **kw):
    """construct the real recon app (MaxEig stubbed: symbolic positive step sizes)"""
    import sigpy.mri.app as mapp
    sapp, stub = _maxeig_stub(V)
    orig = sapp.MaxEig
    sapp.MaxEig = stub
    try:
        return getattr(mapp, cls)(y, M.mps, weights=M.weights, coord=M.coord, coil_batch_size=cfg.get("cbs"), show_pbar=False, **kw)
    finally:
        sapp.MaxEig = orig


def _common(cfg, V, M, app, y, y0):
    """wiring facts shared by all recon apps; returns (obligations, effective sqrt-weights)"""
    sw = M.sw if M.sw is not None else (_est_weights(M, y0) if M.coord is None else None)
    xs = V.array("xs", M.img, True)
    obl = [("operator_is_explicit_model", O.eq(app.A(xs), M.forward(xs, sw))),
           ("data_is_weighted_kspace", O.eq(app.y, np.array([M.swc(c, sw) * y0[c] for c in range(M.nc)], dtype=object if V.symbolic else None))),
           ("caller_kspace_unchanged", O.eq(y, y0))]
    return obl, sw, xs


def h_sense_recon(cfg, V):
    M = Model(cfg, V)
    y = V.array("y", [M.nc] + M.kshape, True)
    y0 = y.copy()
    lam = {"0": 0, "half": 0.5}[cfg["lam"]]
    app = _build(cfg, V, "SenseRecon", M, y, lamda=lam, max_iter=3)
    obl, sw, xs = _common(cfg, V, M, app, y, y0)
    al = app.alg
    yw = np.array([M.swc(c, sw) * y0[c] for c in range(M.nc)], dtype=object if V.symbolic else np.complex128)
    grad = M.adjoint(M.forward(xs, sw) - yw, sw) + lam * xs
    obl.append(("solver_is_cg", O.const(type(al).__name__ == "ConjugateGradient")))
    obl.append(("cg_system_is_minus_gradient_of_documented_objective", O.eq(al.b - al.A(xs), -grad)))
    obl.append(("lamda_passed", O.const(app.lamda == lam and app.z is None and app.proxg is None and app.G is None)))
    return obl


def h_consistent(cfg, V):
    """consistent data y = E x_true, lamda = 0: x_true solves the CG system (weights estimated from the zero pattern of y)"""
    M = Model(cfg, V)
    xt = V.array("xt", M.img, True)
    # measured k-space is the unweighted encoding; the app applies sqrt(weights) itself
    y = np.empty([M.nc] + M.kshape, dtype=object if V.symbolic else np.complex128)
    for c in range(M.nc):
        y[c] = M.F(M.mps[c] * xt)
    app = _build(cfg, V, "SenseRecon", M, y, lamda=0, max_iter=3)
    al = app.alg
    return [("true_image_solves_the_normal_equations", O.eq(al.b - al.A(xt), np.zeros(M.img)))]


def _l1_prox_kkt(p, v, thr):
    """p = prox of thr*|.| at v (complex entries): p != 0 -> (v - p)|p| = thr p ; p = 0 -> |v| <= thr"""
    out = []
    for pi, vi in zip(np.ravel(p), np.ravel(v)):
        if O.is_sym(pi) or O.is_sym(vi) or O.is_sym(thr):
            pi, vi = S.SymK.lift(pi), S.SymK.lift(vi)
            ap = abs(pi)
            out.append(B.implies(B.not_(pi.eqb(0)), ((vi - pi) * ap).eqb(pi * thr)))
            out.append(B.implies(pi.eqb(0), O.le(vi.abs2(), thr * thr)))
        else:
            if abs(pi) > 1e-12:
                out.append(O.const(abs((vi - pi) * abs(pi) - thr * pi) <= 1e-6 * max(1.0, abs(vi))))
            else:
                out.append(O.const(abs(vi) <= thr * (1 + 1e-6) + 1e-9))
    return O.all_(out)


def _probe(V, name, shape, nsym=3):
    """test vector for an element-wise prox: nsym symbolic complex entries (first / middle / last), the others concrete non-zero constants"""
    n = int(np.prod(shape))
    pos = sorted({0, n // 2, n - 1})[:nsym]
    sym = V.array(name, [len(pos)], True)
    consts = [complex(3, -4), complex(0, 0), complex(-0.75, 1), complex(5, 12)]     # rational moduli: |.| is exact
    flat = np.empty(n, dtype=object if V.symbolic else np.complex128)
    j = 0
    for i in range(n):
        if i in pos:
            flat[i] = sym[j]
            j += 1
        else:
            flat[i] = S.SymK.lift(consts[i % 4]) if V.symbolic else consts[i % 4]
    return flat.reshape(shape)


def _fd_oracle(x):
    """documented G: stack over axes of x - roll(x, 1, axis)"""
    return np.stack([x - np.roll(x, 1, axis=a) for a in range(np.ndim(x))])


def h_tv_recon(cfg, V):
    M = Model(cfg, V)
    y = V.array("y", [M.nc] + M.kshape, True)
    y0 = y.copy()
    lam = _pos(V, "lam")
    app = _build(cfg, V, "TotalVariationRecon", M, y, lamda=lam, max_iter=3)
    obl, sw, xs = _common(cfg, V, M, app, y, y0)
    obl.append(("G_is_finite_difference", O.eq(app.G(xs), _fd_oracle(xs))))
    obl.append(("l2_terms_absent", O.const(app.lamda == 0 and app.z is None)))
    if cfg.get("weights"):      # (the element-wise prox forks per entry; kept out of the estimated-weights configurations, which fork per k-space point)
        alpha = _pos(V, "alpha")
        v = _probe(V, "v", list(app.G.oshape))
        p = app.proxg(alpha, v)
        obl.append(("proxg_is_prox_of_lamda_l1", _l1_prox_kkt(p, v, alpha * lam)))
    obl.append(("solver_is_pdhg", O.const(type(app.alg).__name__ == "PrimalDualHybridGradient")))
    # objective() is the documented objective
    import sigpy as sp
    sp.backend.copyto(app.x, xs)
    yw = np.array([M.swc(c, sw) * y0[c] for c in range(M.nc)], dtype=object if V.symbolic else np.complex128)
    tv = 0
    for g in np.ravel(_fd_oracle(xs)):
        tv = tv + abs(g)
    want = O.norm2(M.forward(xs, sw) - yw) * Fraction(1, 2) + lam * tv if V.symbolic else 0.5 * O.norm2(M.forward(xs, sw) - yw) + lam * tv
    obl.append(("objective_is_documented_objective", O.eq(app.objective(), want)))
    # PDHG operator / dual prox wiring: A_stack x = (E x, G x)
    al = app.alg
    ax = al.A(xs)
    obl.append(("pdhg_forward_is_stack_of_E_and_G", O.eq(np.ravel(ax), np.concatenate([np.ravel(M.forward(xs, sw)), np.ravel(_fd_oracle(xs))]))))
    return obl


def h_l1wav_recon(cfg, V):
    """L1WaveletRecon with W := a fixed unitary that differs from its adjoint (i * circular shift along the last axis)"""
    import sigpy as sp
    M = Model(cfg, V)
    y = V.array("y", [M.nc] + M.kshape, True)
    y0 = y.copy()
    lam = _pos(V, "lam")
    origW = sp.linop.Wavelet

    def Wstub(shape, wave_name="db4", **kw):
        return sp.linop.Multiply(list(shape), 1j) * sp.linop.Circshift(list(shape), [1], axes=[-1])
    sp.linop.Wavelet = Wstub
    try:
        app = _build(cfg, V, "L1WaveletRecon", M, y, lamda=lam, max_iter=3)
    finally:
        sp.linop.Wavelet = origW
    obl, sw, xs = _common(cfg, V, M, app, y, y0)
    W = lambda a: 1j * np.roll(a, 1, axis=-1)        # noqa
    if cfg.get("weights"):
        alpha = _pos(V, "alpha")
        v = _probe(V, "v", M.img)
        p = app.proxg(alpha, v)
        obl.append(("proxg_is_prox_of_lamda_l1_of_Wx", _l1_prox_kkt(W(p), W(v), alpha * lam)))
    obl.append(("no_G_no_l2", O.const(app.G is None and app.lamda == 0 and app.z is None)))
    obl.append(("solver_is_gradient_method", O.const(type(app.alg).__name__ == "GradientMethod")))
    al = app.alg
    yw = np.array([M.swc(c, sw) * y0[c] for c in range(M.nc)], dtype=object if V.symbolic else np.complex128)
    obl.append(("gradf_is_gradient_of_data_term", O.eq(al.gradf(xs), M.adjoint(M.forward(xs, sw) - yw, sw))))
    sp.backend.copyto(app.x, xs)
    l1 = 0
    for g in np.ravel(W(xs)):
        l1 = l1 + abs(g)
    want = O.norm2(M.forward(xs, sw) - yw) * Fraction(1, 2) + lam * l1 if V.symbolic else 0.5 * O.norm2(M.forward(xs, sw) - yw) + lam * l1
    obl.append(("objective_is_documented_objective", O.eq(app.objective(), want)))
    return obl


HARNESSES = {"sense": h_sense, "sense_recon": h_sense_recon, "consistent": h_consistent, "tv_recon": h_tv_recon, "l1wav_recon": h_l1wav_recon}


def configs(tier, seed):
    full = tier == "thorough"
    out = []

    def add(h, **kw):
        ident = ":".join("%s=%s" % (k, kw[k]) for k in sorted(kw) if k not in ("cost",))
        kw.update(id="%s:%s" % (h, ident.replace(" ", "")), h=h, max_paths=600, field=_field(kw))
        kw.setdefault("cost", int(np.prod(kw["img"])) * kw["nc"])
        out.append(kw)

    carts = [([2, 2], 2), ([2, 3], 2), ([1, 4], 3), ([2, 2, 2], 2)] + ([([3, 3], 2), ([3, 2], 3), ([2, 2, 2], 3), ([4, 1], 2)] if full else [])
    for img, nc in carts:
        for w in (None, "shared") + (("percoil",) if full else ()):
            add("sense", img=img, nc=nc, coord=None, weights=w)
    ncs = [([2, 2], 2, "c2a"), ([2, 3], 3, "c2tie"), ([2, 2, 2], 2, "c3a")] + ([([3, 2], 2, "c2far"), ([2, 2], 3, "c2dup"), ([1, 4], 2, "c2a")] if full else [])
    for img, nc, cn in ncs:
        for w in (None, "shared"):
            add("sense", img=img, nc=nc, coord=cn, weights=w, cost=200)
    # recon apps
    # (recon apps: image shapes whose unitary DFT scaling is rational - the solvers take norms, which need the field Q(i))
    for img, nc in [([1, 4], 2), ([2, 2], 2)] + ([([4, 1], 3), ([2, 2], 3)] if full else []):
        for lam in ("0", "half"):
            for w in (None, "shared"):
                for cbs in (None, 1):
                    if not full and cbs == 1 and (w or lam == "0"):
                        continue
                    add("sense_recon", img=img, nc=nc, coord=None, weights=w, lam=lam, cbs=cbs, cost=100)
        if full:
            add("consistent", img=img, nc=nc, coord=None, weights=None, cost=1000)     # weights estimated from polynomial data: ~200 s
        add("consistent", img=img, nc=nc, coord=None, weights="shared", cost=100)
    # non-Cartesian recon: 3x3 image (oversampled grid 4x4 keeps the DFT in Q(i), where CG's norms are expressible)
    add("sense_recon", img=[3, 3], nc=2, coord="c2a", weights="shared", lam="half", cbs=None, cost=300)
    add("sense_recon", img=[3, 3], nc=2, coord="c2a", weights=None, lam="0", cbs=1, cost=300)
    for img, nc in [([1, 4], 2)] + ([([2, 2], 2)] if full else []):
        for w in (None, "shared"):
            add("tv_recon", img=img, nc=nc, coord=None, weights=w, cbs=None, cost=400)
            add("l1wav_recon", img=img, nc=nc, coord=None, weights=w, cbs=None, cost=400)
    return out
