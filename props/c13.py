"""C13 - proximal-gradient and primal-dual solvers converge as their theory guarantees (inductive one-step lemmas)."""
from fractions import Fraction

import numpy as np

from symsig import oracle as O
from symsig import scalar as S
from symsig.scalar import B

PROPERTY = "C13"
FUNCTIONS = ["sigpy.alg.GradientMethod.__init__/_update", "sigpy.alg.PrimalDualHybridGradient.__init__/_update", "sigpy.prox.{L1Reg,L2Reg,BoxConstraint,NoOp}",
             "sigpy.util.axpy", "sigpy.backend.copyto"]
BOUNDS = {"quick": "f = 0.5||Ax-b||^2 with an ARBITRARY one-column A (1x1, 2x1: entries are solver variables, L = sum of squares) and concrete rational A (1x1, 2x1), g in {0, l1, l2^2, box}; n = 1; one update from an ARBITRARY symbolic state "
                   "(x, and z, t >= 1 when accelerated); PDHG: n = m = 1, scalar and array steps, theta=1 and both accelerated branches",
          "thorough": "adds n = 2 (A 2x2 diagonal and dense) for the gradient lemmas and PDHG with A 2x1 / 1x2"}
OUTSIDE = ["arbitrary 2x1 A with l1 (three-point inequality unknown in z3), arbitrary A with two or more columns", "n = 2 with a thresholded prox (l1, box): the three-point / metric inequalities are beyond z3's budget there (unknown or > 1 h); n = 2 is "
           "decided for g in {0, l2}", "the limit statements themselves (the solver decides the one-step lemmas from which the rates follow by the standard telescoping argument)",
           "n > 2", "complex data (the lemmas are stated for real vectors; complex = real of twice the dimension)",
           "convergence of the accelerated PDHG variants as a limit statement"]
ASSUMPTIONS = ["0 < alpha <= 1/Lb with Lb a rational upper bound of ||A^T A|| (max absolute row sum)", "tau_i sigma_j Lb <= 1 with Lb >= ||A||^2",
               "lemma state is arbitrary (not only reachable states); t >= 1 for the accelerated method",
               "saddle point (x*, u*) of the PDHG instance is symbolic and constrained by its optimality conditions"]
EXPLANATION = ("C13: decided as one update of the real Alg object from an arbitrary symbolic state. GradientMethod: F(x+) <= F(x) and the three-point "
               "inequality F(x+) - F(w) <= (||x-w||^2 - ||x+-w||^2)/(2 alpha) for all w (gives L||x0-x*||^2/(2k)); accelerated: t+^2 - t+ = t^2 and the "
               "Beck-Teboulle potential 2 alpha (t^2-t)(F(x)-F(w)) + ||x + t(z-x) - w||^2 does not increase (gives 2L||x0-x*||^2/(k+1)^2). PDHG: every "
               "saddle point is a fixed point; over two consecutive updates the proximal-point metric ||x-x*||^2/tau - 2<A(x-x*),u-u*> + ||u-u*||^2/sigma "
               "of the pair (x before, u after) does not increase; accelerated branches keep tau*sigma, theta in (0,1], fixed points; arrays updated in place.")

AMATS = {"id1": [[1]], "id2": [[1, 0], [0, 1]], "a1": [[2]], "a21": [[1], [2]], "d2": [[1, 0], [0, 3]], "g2": [[2, 1], [0, 1]], "a12": [[1, 2]]}


def _A(name, V):
    if name in ("s11", "s21"):
        # ARBITRARY 1x1 / 2x1 operator: every entry a solver variable
        m_ = int(name[1])
        M = np.empty((m_, 1), dtype=object if V.symbolic else np.float64)
        for i in range(m_):
            M[i, 0] = V.scalar("a%d0" % i)
        return M
    rows = AMATS[name]
    if V.symbolic:
        return S.lift_array(np.array([[Fraction(e) for e in r] for r in rows], dtype=object))
    return np.array(rows, dtype=np.float64)


def _Lb(name):
    """rational upper bound of ||A^T A||_2: max absolute row sum of A^T A"""
    M = np.array(AMATS[name], dtype=object)
    G = M.T @ M
    return max(sum(abs(Fraction(v)) for v in row) for row in G)


def _pos(V, name):
    v = V.scalar(name)
    V.assume(v > 0, name + " > 0")
    return v


def _abs(v):
    return abs(v)


class _G:
    """regulariser: prox object + value function (both modes)"""

    def __init__(self, kind, n, V):
        from sigpy import prox
        self.kind = kind
        if kind == "none":
            self.prox = None
        elif kind == "l1":
            self.lam = _pos(V, "lam")
            self.prox = prox.L1Reg([n], self.lam)
        elif kind == "l2":
            self.lam = _pos(V, "lam")
            self.prox = prox.L2Reg([n], self.lam)
        elif kind == "box":
            self.lo, self.up = V.scalar("lo"), V.scalar("up")
            V.assume(self.lo <= self.up, "lower <= upper")
            self.prox = prox.BoxConstraint([n], self.lo, self.up)

    def val(self, x):
        if self.kind in ("none", "box"):
            return 0
        if self.kind == "l1":
            s = 0
            for v in x:
                s = s + self.lam * _abs(v)
            return s
        return self.lam * O.vdot(x, x) * Fraction(1, 2) if isinstance(self.lam, S.SymK) else self.lam * float(np.real(O.vdot(x, x))) / 2

    def feasible(self, x, V):
        if self.kind == "box":
            for v in x:
                V.assume(v >= self.lo, "w in box")
                V.assume(v <= self.up, "w in box")


def _f(Amat, b, x):
    r = Amat @ x - b
    return O.vdot(r, r) * Fraction(1, 2) if r.dtype == object else float(np.real(O.vdot(r, r))) / 2


def h_grad(cfg, V):
    from sigpy import alg
    Amat = _A(cfg["A"], V)
    m, n = Amat.shape
    Lb = _Lb(cfg["A"]) if cfg["A"] in AMATS else sum(e * e for e in Amat[:, 0])     # one column: ||A^T A|| = sum of squares, exactly
    b = V.array("b", [m], False)
    x = V.array("x", [n], False)
    w = V.array("w", [n], False)
    alpha = _pos(V, "alpha")
    V.assume(alpha * Lb <= 1, "alpha <= 1/L")
    g = _G(cfg["g"], n, V)
    g.feasible(w, V)
    gradf = lambda v: Amat.T @ (Amat @ v - b)   # noqa
    x_in = x.copy()
    F = lambda v: _f(Amat, b, v) + g.val(v)     # noqa
    if not cfg["acc"]:
        if cfg["g"] == "box":
            g.feasible(x, V)     # F(x) finite
        am = alg.GradientMethod(gradf, x, alpha, proxg=g.prox, accelerate=False, max_iter=3)
        Fx = F(x_in)
        am.update()
        xp = am.x
        obl = [("updates_callers_array", O.const(am.x is x)), ("iter", O.const(am.iter == 1))]
        Fp, Fw = F(xp), F(w)
        obl.append(("objective_nonincreasing", O.le(Fp, Fx)))
        d0 = O.norm2(x_in - w)
        d1 = O.norm2(xp - w)
        obl.append(("three_point_inequality", O.le((Fp - Fw) * 2 * alpha, d0 - d1)))
        return obl
    # accelerated: arbitrary state (x, z, t >= 1)
    z = V.array("z", [n], False)
    # t is parametrised as (q - 1/q)/4, q > 0, which covers every t >= 1 (q = 2t + sqrt(1+4t^2)) and makes 1 + 4t^2 the perfect
    # square ((q + 1/q)/2)^2: the real code's (1 + 4 t**2) ** 0.5 is then a rational function instead of an auxiliary variable
    q = _pos(V, "q")
    t = (q - 1 / q) / 4
    V.assume(t >= 1, "t >= 1")
    if V.symbolic:
        S.cur().register_sqrt(1 + 4 * t ** 2, (q + 1 / q) / 2)
    if cfg["g"] == "box":
        g.feasible(x, V)
    am = alg.GradientMethod(gradf, x, alpha, proxg=g.prox, accelerate=True, max_iter=3)
    # base case of the induction: the constructed state is x = z = x0 (a separate array), t = 1 - the potential then starts at ||x0 - w||^2
    init = [("initial_extrapolated_point_is_x0", O.eq(am.z, x_in)), ("initial_t_is_one", O.eq(am.t, 1)),
            ("initial_z_is_not_an_alias_of_x", O.const(am.z is not am.x and not np.shares_memory(am.z, am.x)))]
    am.z = z.copy()
    am.t = t
    z_in = z.copy()
    Fw = F(w)
    pot0 = (F(x_in) - Fw) * 2 * alpha * (t * t - t) + O.norm2(x_in + t * (z_in - x_in) - w)
    am.update()
    tp = am.t
    xp, zp = am.x, am.z
    obl = init + [("updates_callers_array", O.const(am.x is x)),
                  ("t_recurrence", O.eq(tp * tp - tp, t * t)), ("t_at_least_one", O.ge(tp, 1))]
    pot1 = (F(xp) - Fw) * 2 * alpha * (tp * tp - tp) + O.norm2(xp + tp * (zp - xp) - w)
    # Beck-Teboulle potential decrease, decided through its textbook certificate: the three-point inequality of the prox-gradient
    # step taken at z, instantiated at the old x (slack S1) and at w (slack S2), combined with multipliers 2 alpha t (t-1) and 2 alpha t.
    Fp = F(xp)
    S1 = (O.norm2(z_in - x_in) - O.norm2(xp - x_in)) - (Fp - F(x_in)) * 2 * alpha
    S2 = (O.norm2(z_in - w) - O.norm2(xp - w)) - (Fp - Fw) * 2 * alpha
    m1, m2 = t * (t - 1), t
    obl.append(("bt_three_point_at_old_x", O.ge(S1, 0)))
    obl.append(("bt_three_point_at_w", O.ge(S2, 0)))
    obl.append(("bt_multipliers_nonnegative", B.and_(O.ge(m1, 0), O.ge(m2, 0))))
    obl.append(("bt_potential_identity", O.eq(pot0 - pot1, m1 * S1 + m2 * S2)))
    obl.append(("bt_potential_nonincreasing_from_certificate", _combine(V, [(m1, S1), (m2, S2)], pot0 - pot1)))
    # z+ is the documented extrapolation
    obl.append(("extrapolation", O.eq(zp * tp, xp * tp + (t - 1) * (xp - x_in))))
    return obl


def _kkt_g(kind, gobj, xs, grad, V):
    """assume  -grad in dg(xs)  (grad = A^T u*)"""
    for xi, gi in zip(xs, grad):
        if kind == "none":
            V.assume(gi == 0, "saddle: A^T u* = 0")
        elif kind == "l2":
            V.assume(gi + gobj.lam * xi == 0, "saddle: -A^T u* = lam x*")
        elif kind == "l1":
            lam = gobj.lam
            if V.symbolic:
                c = B.and_(B.implies((xi > 0).b, (gi + lam == 0).b), B.implies((xi < 0).b, (gi - lam == 0).b),
                           B.implies((xi == 0).b, B.and_((gi <= lam).b, (-gi <= lam).b)))
                V.assume(c, "saddle: -A^T u* in lam d|x*|")
            else:
                ok = (xi > 0 and abs(gi + lam) < 1e-9) or (xi < 0 and abs(gi - lam) < 1e-9) or (xi == 0 and abs(gi) <= lam + 1e-9)
                V.assume(ok)
        elif kind == "box":
            lo, up = gobj.lo, gobj.up
            V.assume(xi >= lo, "x* in box")
            V.assume(xi <= up, "x* in box")
            if V.symbolic:
                c = B.and_(B.implies(B.and_((xi > lo).b, (xi < up).b), (gi == 0).b), B.implies(B.and_((xi == lo).b, (lo < up).b), (gi >= 0).b),
                           B.implies(B.and_((xi == up).b, (lo < up).b), (gi <= 0).b))
                V.assume(c, "saddle: -A^T u* in N_box(x*)")
            else:
                ok = (lo < xi < up and abs(gi) < 1e-9) or (xi == lo and gi >= -1e-9) or (xi == up and gi <= 1e-9) or lo == up
                V.assume(ok)


def h_pdhg(cfg, V):
    from sigpy import alg, prox
    Amat = _A(cfg["A"], V)
    m, n = Amat.shape
    Lb = _Lb(cfg["A"]) if cfg["A"] in AMATS else sum(e * e for e in Amat[:, 0])
    y = V.array("y", [m], False)
    g = _G(cfg["g"], n, V)
    proxg = g.prox if g.prox is not None else prox.NoOp([n])
    proxfc = prox.L2Reg([m], 1, y=-y)       # f = 0.5||. - y||^2, as LinearLeastSquares builds it
    if cfg["steps"] == "scalar":
        tau, sigma = _pos(V, "tau"), _pos(V, "sigma")
        V.assume(tau * sigma * Lb <= 1, "tau sigma ||A||^2 <= 1")
        taus, sigmas = [tau] * n, [sigma] * m
    else:
        tau = V.array("tau", [n], False)
        sigma = V.array("sigma", [m], False)
        for ti in tau:
            V.assume(ti > 0, "tau > 0")
        for sj in sigma:
            V.assume(sj > 0, "sigma > 0")
        for ti in tau:
            for sj in sigma:
                V.assume(ti * sj * Lb <= 1, "tau_i sigma_j ||A||^2 <= 1")
        taus, sigmas = list(tau), list(sigma)
    # symbolic saddle point
    xs = V.array("xs", [n], False)
    us = Amat @ xs - y                      # A x* in df*(u*)  <=>  u* = A x* - y
    _kkt_g(cfg["g"], g, xs, Amat.T @ us, V)
    Aop = lambda v: Amat @ v        # noqa
    AHop = lambda v: Amat.T @ v     # noqa
    if cfg.get("alias"):
        # identity operator whose forward AND adjoint return their argument itself (as sigpy.linop.Identity / Reshape do): the algorithm
        # must not scale or accumulate into what the operator hands back
        Aop = AHop = (lambda v: v)
    mode = cfg["mode"]
    gp = _pos(V, "gp") if mode == "gamma_primal" else 0
    gd = _pos(V, "gd") if mode == "gamma_dual" else 0
    obl = []
    if cfg["what"] == "fixed":
        x = xs.copy()
        u = np.array(us, copy=True)
        t0 = np.array(tau, copy=True) if cfg["steps"] != "scalar" else tau
        s0 = np.array(sigma, copy=True) if cfg["steps"] != "scalar" else sigma
        pd = alg.PrimalDualHybridGradient(proxfc, proxg, Aop, AHop, x, u, t0, s0, gamma_primal=gp, gamma_dual=gd, max_iter=5)
        pd.update()
        obl.append(("saddle_point_is_fixed_x", O.eq(pd.x, xs)))
        obl.append(("saddle_point_is_fixed_u", O.eq(pd.u, us)))
        obl.append(("updates_callers_arrays", O.const(pd.x is x and pd.u is u)))
        obl.append(("x_ext_fixed", O.eq(pd.x_ext, xs)))
        if mode != "plain":
            t1 = list(np.ravel(pd.tau)) if cfg["steps"] != "scalar" else [pd.tau]
            s1 = list(np.ravel(pd.sigma)) if cfg["steps"] != "scalar" else [pd.sigma]
            t00 = taus if cfg["steps"] != "scalar" else [tau]
            s00 = sigmas if cfg["steps"] != "scalar" else [sigma]
            obl.append(("step_product_preserved", O.all_([O.eq(a * b_, c * d) for a, c in zip(t1, t00) for b_, d in zip(s1, s00)])))
            if mode == "gamma_primal":
                obl.append(("theta_in_(0,1]", O.all_([B.and_(O.gt(a, 0), O.le(a, c)) for a, c in zip(t1, t00)])))
            else:
                obl.append(("theta_in_(0,1]", O.all_([B.and_(O.gt(a, 0), O.le(a, c)) for a, c in zip(s1, s00)])))
            # Chambolle-Pock acceleration rule: the step that shrinks is divided by sqrt(1 + 2 gamma * (its CURRENT minimum)), at every update
            gam = gp if mode == "gamma_primal" else gd
            obl.append(("rescaling_rule_update1", _rescale(t00 if mode == "gamma_primal" else s00, t1 if mode == "gamma_primal" else s1, gam)))
            trk = pd.tau_min if mode == "gamma_primal" else pd.sigma_min
            obl.append(("tracked_minimum_is_current_minimum_1", O.eq(trk, _min(t1 if mode == "gamma_primal" else s1))))
            pd.update()
            obl.append(("saddle_point_still_fixed", B.and_(O.eq(pd.x, xs), O.eq(pd.u, us))))
            t2 = list(np.ravel(pd.tau)) if cfg["steps"] != "scalar" else [pd.tau]
            s2 = list(np.ravel(pd.sigma)) if cfg["steps"] != "scalar" else [pd.sigma]
            obl.append(("rescaling_rule_update2", _rescale(t1 if mode == "gamma_primal" else s1, t2 if mode == "gamma_primal" else s2, gam)))
            obl.append(("step_product_preserved_2", O.all_([O.eq(a * b_, c * d) for a, c in zip(t2, t00) for b_, d in zip(s2, s00)])))
        return obl
    # monotone proximal-point metric over two updates from an arbitrary state
    x = V.array("x", [n], False)
    u = V.array("u", [m], False)
    xe = V.array("xe", [n], False)
    pd = alg.PrimalDualHybridGradient(proxfc, proxg, Aop, AHop, x, u, tau, sigma, max_iter=5)
    pd.x_ext = xe.copy()
    x0 = x.copy()
    pd.update()
    x1 = pd.x.copy()
    u1 = pd.u.copy()
    obl.append(("extrapolation", O.eq(pd.x_ext, x1 + (x1 - x0))))
    pd.update()
    u2 = pd.u.copy()

    def metric(xa, ua):
        dx, du = xa - xs, ua - us
        s = -2 * O.vdot(Amat @ dx, du)
        for d, t in zip(dx, taus):
            s = s + d * d / t
        for d, sg in zip(du, sigmas):
            s = s + d * d / sg
        return s
    def mquad(dx, du):
        s = -2 * O.vdot(Amat @ dx, du)
        for d, t in zip(dx, taus):
            s = s + d * d / t
        for d, sg in zip(du, sigmas):
            s = s + d * d / sg
        return s
    # proximal-point certificate: with xi1 = (x0 - x1)/tau - A^T u1 in dg(x1) and eta2 = (u1 - u2)/sigma + A(2 x1 - x0) in df*(u2),
    #   m(p1 - p*) - m(p2 - p*) = m(p1 - p2) + 2 <x1 - x*, xi1 + A^T u*> + 2 <u2 - u*, eta2 - A x*>
    xi1 = np.array([(a - b_) / t for a, b_, t in zip(x0, x1, taus)], dtype=object if V.symbolic else float) - Amat.T @ u1
    eta2 = np.array([(a - b_) / sg for a, b_, sg in zip(u1, u2, sigmas)], dtype=object if V.symbolic else float) + Amat @ (2 * x1 - x0)
    gmono = O.vdot(x1 - xs, xi1 + Amat.T @ us)
    fmono = O.vdot(u2 - us, eta2 - Amat @ xs)
    step = mquad(x0 - x1, u1 - u2)
    drop = metric(x0, u1) - metric(x1, u2)
    obl.append(("ppa_g_monotone", O.ge(gmono, 0)))
    obl.append(("ppa_fstar_monotone", O.ge(fmono, 0)))
    obl.append(("ppa_step_metric_psd", O.ge(step, 0)))
    obl.append(("ppa_identity", O.eq(drop, step + 2 * gmono + 2 * fmono)))
    one = S.SymK.lift(1) if V.symbolic else 1.0
    obl.append(("ppa_metric_nonincreasing_from_certificate", _combine(V, [(one, step), (2 * one, gmono), (2 * one, fmono)], drop)))
    return obl


def _min(vals):
    m = vals[0]
    for v in vals[1:]:
        if v < m:
            m = v
    return m


def _rescale(before, after, gam):
    """after_i^2 * (1 + 2 gam min(before)) == before_i^2 and after_i > 0"""
    mb = _min(list(before))
    return O.all_([B.and_(O.eq(a * a * (1 + 2 * gam * mb), b_ * b_), O.gt(a, 0)) for a, b_ in zip(after, before)])


def _combine(V, pairs, total):
    """final step of a certificate: with fresh solver variables standing for the (already proven non-negative) multipliers and
    slacks and for the (already proven) identity total = sum m_i S_i, the solver concludes total >= 0"""
    if not V.symbolic:
        return O.ge(total, 0)
    hyp = []
    acc = S.SymK.lift(0)
    for i, _ in enumerate(pairs):
        m = S.SymK.real_(S.Rat.var("cert_m%d" % i))
        sl = S.SymK.real_(S.Rat.var("cert_S%d" % i))
        hyp += [O.ge(m, 0), O.ge(sl, 0)]
        acc = acc + m * sl
    tot = S.SymK.real_(S.Rat.var("cert_total"))
    hyp.append(O.eq(tot, acc))
    return B.implies(B.and_(*hyp), O.ge(tot, 0))


HARNESSES = {"grad": h_grad, "pdhg": h_pdhg}


def configs(tier, seed):
    full = tier == "thorough"
    out = []
    mats = ["a1", "a21"] + (["d2", "g2"] if full else [])
    for A in mats:
        for g in ("none", "l1", "l2", "box"):
            for acc in (False, True):
                n = len(AMATS[A][0])
                if n >= 2 and g in ("l1", "box"):
                    continue        # two thresholded coordinates: the three-point inequalities are `unknown` / exceed 1 h in z3 (stated in OUTSIDE)
                out.append({"id": "grad:%s:g=%s:acc=%s" % (A, g, acc), "h": "grad", "A": A, "g": g, "acc": acc, "max_paths": 3000,
                            "cost": 10 ** n})
    # ARBITRARY one-column operators (entries are solver variables; L = sum of squares exactly)
    for A in ("s11", "s21"):
        for g in ("none", "l1", "l2", "box"):
            if A == "s21" and g == "l1":
                continue        # three-point inequality `unknown` in z3 with an arbitrary 2x1 operator and the soft threshold: outside
            for acc in (False, True):
                out.append({"id": "grad:%s:g=%s:acc=%s" % (A, g, acc), "h": "grad", "A": A, "g": g, "acc": acc, "max_paths": 3000, "cost": 100})
    for g in ("none", "l1", "l2", "box"):
        out.append({"id": "pdhg-fixed:s11:g=%s:scalar:plain" % g, "h": "pdhg", "A": "s11", "g": g, "steps": "scalar", "mode": "plain", "what": "fixed", "max_paths": 3000})
        out.append({"id": "pdhg-metric:s11:g=%s:scalar" % g, "h": "pdhg", "A": "s11", "g": g, "steps": "scalar", "mode": "plain", "what": "metric", "max_paths": 3000, "cost": 100})
    pm = ["a1"] + (["a21", "a12"] if full else [])
    for A in pm:
        for g in ("none", "l1", "l2", "box"):
            for steps in ("scalar", "array"):
                out.append({"id": "pdhg-fixed:%s:g=%s:%s:plain" % (A, g, steps), "h": "pdhg", "A": A, "g": g, "steps": steps, "mode": "plain", "what": "fixed",
                            "max_paths": 3000})
                if A != "a1" and (g in ("l1", "box") or (g == "l2" and steps == "array")):
                    continue        # metric lemma beyond 1x1 with a thresholded prox (> 1 h) / l2 with array steps (`unknown`)
                out.append({"id": "pdhg-metric:%s:g=%s:%s" % (A, g, steps), "h": "pdhg", "A": A, "g": g, "steps": steps, "mode": "plain", "what": "metric",
                            "max_paths": 3000, "cost": 50})
            for mode in ("gamma_primal", "gamma_dual"):
                out.append({"id": "pdhg-fixed:%s:g=%s:scalar:%s" % (A, g, mode), "h": "pdhg", "A": A, "g": g, "steps": "scalar", "mode": mode, "what": "fixed",
                            "max_paths": 3000})
        out.append({"id": "pdhg-fixed:%s:g=l1:array:gamma_primal" % A, "h": "pdhg", "A": A, "g": "l1", "steps": "array", "mode": "gamma_primal", "what": "fixed",
                    "max_paths": 3000})
    for g in ("none", "l1", "box"):
        for steps in ("scalar", "array"):
            out.append({"id": "pdhg-fixed:id1:g=%s:%s:plain:alias" % (g, steps), "h": "pdhg", "A": "id1", "g": g, "steps": steps, "mode": "plain", "what": "fixed",
                        "alias": True, "max_paths": 3000})
        out.append({"id": "pdhg-metric:id1:g=%s:scalar:alias" % g, "h": "pdhg", "A": "id1", "g": g, "steps": "scalar", "mode": "plain", "what": "metric",
                    "alias": True, "max_paths": 3000, "cost": 50})
    out.append({"id": "pdhg-fixed:id2:g=l1:array:plain:alias", "h": "pdhg", "A": "id2", "g": "l1", "steps": "array", "mode": "plain", "what": "fixed",
                "alias": True, "max_paths": 3000})
    return out
