"""C15 - solvers stop within max_iter and stop early only at genuine fixed points."""
from fractions import Fraction

import numpy as np

from symsig import oracle as O
from symsig import scalar as S
from symsig.scalar import B

PROPERTY = "C15"
FUNCTIONS = ["sigpy.alg.Alg.update/done (CrossHair, symbolic max_iter)", "sigpy.alg.{ConjugateGradient,GradientMethod,PrimalDualHybridGradient,PowerMethod}._update/_done",
             "sigpy.app.App.run / LinearLeastSquares._output", "sigpy.app.MaxEig (PowerMethod)"]
BOUNDS = {"quick": "tol = 0, max_iter in {0..3}; CG (2x2 SPD, b, x0 symbolic), GradientMethod (plain / l1, accelerated or not, 1-2 unknowns), PDHG (1x1, l1 / none, "
                   "zero and symbolic initialisation, symbolic steps); PowerMethod on rational Hermitian PSD 2x2 / 3x3 with symbolic unit start vector; "
                   "inductive stopping harnesses (arbitrary solver state -> one update) also with an ARBITRARY 1x1 / 2x1 operator (every entry a solver variable); "
                   "CrossHair: max_iter <= 12 symbolic", "thorough": "adds 2-unknown PDHG, preconditioned CG, max_iter 4"}
OUTSIDE = ["arbitrary (symbolic) operators of 2x2 and larger, and 2x1 with l1 for PDHG (z3 answers unknown)", "SDMM, NewtonsMethod, GerchbergSaxton, AltMin, AugmentedLagrangianMethod early-stop rules (not used by the linear apps)",
           "tol > 0 (then stopping is by design approximate)", "progress-bar / timing code of App.run"]
ASSUMPTIONS = ["problem data and initial points arbitrary (symbolic); step sizes > 0; exact real arithmetic"]
EXPLANATION = ("C15: (CrossHair) the canonical loop performs exactly max_iter updates, iter advancing by one, for every max_iter <= 12; (symbolic engine) "
               "on every path where done() becomes true with iter < max_iter and tol = 0, one further update() leaves the solution variable unchanged or a "
               "breakdown flag is set; App.run returns the array the algorithm holds after at most max_iter updates; PowerMethod's estimate for a unit "
               "vector is non-decreasing and bounded by the largest eigenvalue (squared forms).")


def _pos(V, name):
    v = V.scalar(name)
    V.assume(v > 0, name + " > 0")
    return v


def _mat(rows, V):
    if isinstance(rows, str):
        # "sym<m><n>": ARBITRARY real m x n matrix, every entry a solver variable
        m_, n_ = int(rows[3]), int(rows[4])
        M = np.empty((m_, n_), dtype=object if V.symbolic else np.float64)
        for i in range(m_):
            for j in range(n_):
                M[i, j] = V.scalar("a%d%d" % (i, j))
        return M
    if V.symbolic:
        return S.lift_array(np.array([[Fraction(e) for e in r] for r in rows], dtype=object))
    return np.array(rows, dtype=np.float64)


def _drive(alg_, get_x, max_iter, flag=None):
    """canonical loop; returns obligations about the number of updates and early stops"""
    obl = []
    k = 0
    while not alg_.done():
        before = alg_.iter
        alg_.update()
        k += 1
        obl.append(("iter_plus_one_%d" % k, O.const(alg_.iter == before + 1)))
        if k > max_iter + 2:
            break
    obl.append(("at_most_max_iter_updates", O.const(k <= max_iter)))
    if alg_.iter < max_iter:
        # stopped early with tol = 0: a further update must not move the solution (or a breakdown was flagged)
        if flag is not None and getattr(alg_, flag):
            obl.append(("early_stop_is_breakdown", O.const(True)))
        else:
            snap = np.array(get_x(alg_), copy=True)
            alg_.update()
            obl.append(("early_stop_only_at_fixed_point", O.eq(get_x(alg_), snap)))
    return obl


def h_cg(cfg, V):
    from sigpy import alg
    old = S.EQ_VIA_SOLVER
    S.EQ_VIA_SOLVER = True
    try:
        Amat = _mat(cfg["A"], V)
        n = len(cfg["A"])
        b = V.array("b", [n], False)
        x = V.array("x0", [n], False) if cfg["x0"] == "sym" else (S.lift_array(np.zeros(n)) if V.symbolic else np.zeros(n))
        a = alg.ConjugateGradient(lambda v: Amat @ v, b, x, max_iter=cfg["max_iter"], tol=0)
        return _drive(a, lambda al: al.x, cfg["max_iter"], flag="not_positive_definite")
    finally:
        S.EQ_VIA_SOLVER = old


def h_gm(cfg, V):
    from sigpy import alg, prox
    Amat = _mat(cfg["A"], V)
    m, n = Amat.shape
    b = V.array("b", [m], False)
    x = V.array("x0", [n], False) if cfg["x0"] == "sym" else (S.lift_array(np.zeros(n)) if V.symbolic else np.zeros(n))
    alpha = _pos(V, "alpha")
    proxg = prox.L1Reg([n], _pos(V, "lam")) if cfg["g"] == "l1" else None
    a = alg.GradientMethod(lambda v: Amat.T @ (Amat @ v - b), x, alpha, proxg=proxg, accelerate=cfg["acc"], max_iter=cfg["max_iter"], tol=0)
    return _drive(a, lambda al: al.x, cfg["max_iter"])


def h_pdhg(cfg, V):
    from sigpy import alg, prox
    Amat = _mat(cfg["A"], V)
    m, n = Amat.shape
    y = V.array("y", [m], False)
    x = V.array("x0", [n], False) if cfg["x0"] == "sym" else (S.lift_array(np.zeros(n)) if V.symbolic else np.zeros(n))
    u = V.array("u0", [m], False) if cfg["u0"] == "sym" else (S.lift_array(np.zeros(m)) if V.symbolic else np.zeros(m))
    tau, sigma = _pos(V, "tau"), _pos(V, "sigma")
    proxg = prox.L1Reg([n], _pos(V, "lam")) if cfg["g"] == "l1" else prox.NoOp([n])
    proxfc = prox.L2Reg([m], 1, y=-y)
    a = alg.PrimalDualHybridGradient(proxfc, proxg, lambda v: Amat @ v, lambda v: Amat.T @ v, x, u, tau, sigma, max_iter=cfg["max_iter"], tol=0)
    return _drive(a, lambda al: al.x, cfg["max_iter"])


def h_pdhg_state(cfg, V):
    """inductive form of the PDHG clause: from ANY state (x, u, x_ext) one update; if done() then holds with tol = 0 and the iteration budget
    not exhausted, the state must be a fixed point (a further update leaves x, u and x_ext unchanged)"""
    from sigpy import alg, prox
    Amat = _mat(cfg["A"], V)
    m, n = Amat.shape
    y = V.array("y", [m], False)
    x = V.array("x", [n], False)
    u = V.array("u", [m], False)
    xe = V.array("xe", [n], False)
    tau, sigma = _pos(V, "tau"), _pos(V, "sigma")
    proxg = prox.L1Reg([n], _pos(V, "lam")) if cfg["g"] == "l1" else prox.NoOp([n])
    proxfc = prox.L2Reg([m], 1, y=-y)
    a = alg.PrimalDualHybridGradient(proxfc, proxg, lambda v: Amat @ v, lambda v: Amat.T @ v, x, u, tau, sigma, max_iter=5, tol=0)
    a.x_ext = xe.copy()
    a.update()
    if not a.done():
        return [("not_stopped", O.const(True))]
    x1, u1, e1 = np.array(a.x, copy=True), np.array(a.u, copy=True), np.array(a.x_ext, copy=True)
    a.update()
    return [("early_stop_only_at_fixed_point", B.and_(O.eq(a.x, x1), O.eq(a.u, u1), O.eq(a.x_ext, e1)))]


def h_gm_state(cfg, V):
    """inductive form for the (accelerated) gradient method: from ANY state (x, z, t >= 1) one update; if done() then holds with tol = 0
    and budget left, a further update leaves x (and z) unchanged"""
    from sigpy import alg, prox
    Amat = _mat(cfg["A"], V)
    m, n = Amat.shape
    b = V.array("b", [m], False)
    x = V.array("x", [n], False)
    alpha = _pos(V, "alpha")
    proxg = prox.L1Reg([n], _pos(V, "lam")) if cfg["g"] == "l1" else None
    a = alg.GradientMethod(lambda v: Amat.T @ (Amat @ v - b), x, alpha, proxg=proxg, accelerate=cfg["acc"], max_iter=5, tol=0)
    if cfg["acc"]:
        z = V.array("z", [n], False)
        # t = (q - 1/q)/4 covers every t >= 1 and makes 1 + 4 t^2 a perfect square (as in C13)
        q = _pos(V, "q")
        t = (q - 1 / q) / 4
        V.assume(t >= 1, "t >= 1")
        if V.symbolic:
            S.cur().register_sqrt(1 + 4 * t ** 2, (q + 1 / q) / 2)
        a.z = z.copy()
        a.t = t
    a.update()
    if not a.done():
        return [("not_stopped", O.const(True))]
    x1 = np.array(a.x, copy=True)
    z1 = np.array(a.z, copy=True) if cfg["acc"] else None
    a.update()
    good = O.eq(a.x, x1)
    if cfg["acc"]:
        good = B.and_(good, O.eq(a.z, z1))
    return [("early_stop_only_at_fixed_point", good)]


def h_apprun(cfg, V):
    import sigpy as sp
    Amat = np.array(cfg["A"], dtype=np.float64)
    m, n = Amat.shape
    A = sp.linop.MatMul([n, 1], Amat)
    y = V.array("y", [m, 1], False)
    x0 = V.array("x0", [n, 1], False)
    kw = {}
    if cfg["solver"] == "GradientMethod":
        kw["alpha"] = _pos(V, "alpha")
        kw["proxg"] = sp.prox.L1Reg([n, 1], _pos(V, "lam"))
    app = sp.app.LinearLeastSquares(A, y, x=x0, solver=cfg["solver"], max_iter=cfg["max_iter"], show_pbar=False, **kw)
    out = app.run()
    return [("run_returns_solution_array", O.const(out is app.x and out is x0 and app.alg.x is x0)),
            ("at_most_max_iter_updates", O.const(app.alg.iter <= cfg["max_iter"])),
            ("timer_counts_updates", O.const(len(app.time) == app.alg.iter + 1))]


def h_power(cfg, V):
    from sigpy import alg
    Amat = _mat(cfg["A"], V)
    n = len(cfg["A"])
    lmax = Fraction(cfg["lmax"])
    x = V.array("x", [n], cfg.get("cplx", False))
    V.assume(O.eq(O.norm2(x), 1), "start vector has unit norm")
    pm = alg.PowerMethod(lambda v: Amat @ v, x, max_iter=cfg["max_iter"])
    ests = []
    obl = []
    k = 0
    while not pm.done():
        pm.update()
        k += 1
        ests.append(pm.max_eig)
        obl.append(("vector_normalised_%d" % k, O.eq(O.norm2(pm.x), 1)))
    obl.append(("exactly_max_iter_updates", O.const(k == cfg["max_iter"])))
    for i, e in enumerate(ests):
        obl.append(("estimate_nonnegative_%d" % i, O.ge(e, 0)))
        obl.append(("estimate_at_most_lambda_max_%d" % i, O.le(e, lmax if V.symbolic else float(lmax))))
        if i:
            obl.append(("estimate_nondecreasing_%d" % i, O.ge(e, ests[i - 1])))
    return obl


HARNESSES = {"cg": h_cg, "gm": h_gm, "pdhg": h_pdhg, "pdhg_state": h_pdhg_state, "gm_state": h_gm_state, "apprun": h_apprun, "power": h_power}


def configs(tier, seed):
    full = tier == "thorough"
    out = []

    def add(h, ident, **kw):
        kw.update(id="%s:%s" % (h, ident), h=h)
        kw.setdefault("max_paths", 3000)
        out.append(kw)
    mis = (0, 1, 2, 3) + ((4,) if full else ())
    for mi in mis:
        for x0 in ("zero", "sym"):
            add("cg", "dense2:x0=%s:max_iter=%d" % (x0, mi), A=[[4, 1], [1, 3]], x0=x0, max_iter=mi)
        add("cg", "rep2:x0=sym:max_iter=%d" % mi, A=[[3, 0], [0, 3]], x0="sym", max_iter=mi)
        for g in ("none", "l1"):
            for acc in (False, True):
                for x0 in ("zero", "sym"):
                    if mi == 0 and x0 == "sym":
                        continue
                    add("gm", "a1:g=%s:acc=%s:x0=%s:max_iter=%d" % (g, acc, x0, mi), A=[[2]], g=g, acc=acc, x0=x0, max_iter=mi)
        if mi in (1, 2):
            add("gm", "d2:g=l1:acc=False:x0=zero:max_iter=%d" % mi, A=[[1, 0], [0, 2]], g="l1", acc=False, x0="zero", max_iter=mi, cost=40)
        for g in ("none", "l1"):
            for x0, u0 in (("zero", "zero"), ("sym", "zero"), ("sym", "sym")):
                if mi == 0 and x0 == "sym":
                    continue
                if not full and mi >= 3 and (x0 == "sym" or g == "l1"):
                    continue        # 8-30 min each (thorough); the inductive pdhg_state harness covers every history cheaply
                if mi >= 4 or (mi >= 3 and g == "l1" and u0 == "sym"):
                    continue        # > 30 min or `unknown`: nested threshold / residual forks (the inductive pdhg_state harness covers every history)
                add("pdhg", "a1:g=%s:x0=%s:u0=%s:max_iter=%d" % (g, x0, u0, mi), A=[[2]], g=g, x0=x0, u0=u0, max_iter=mi, cost=30)
        if full and mi in (1, 2):
            add("pdhg", "a21:g=l1:x0=zero:u0=zero:max_iter=%d" % mi, A=[[1], [2]], g="l1", x0="zero", u0="zero", max_iter=mi, cost=80)
    for Aname, Am in (("a1", [[2]]), ("a21", [[1], [2]])) + ((("d2", [[1, 0], [0, 2]]),) if full else ()):
        for g in ("none", "l1"):
            add("pdhg_state", "%s:g=%s" % (Aname, g), A=Am, g=g, cost=30)
    for Aname, Am in (("a1", [[2]]), ("a21", [[1], [2]])) + ((("d2", [[1, 0], [0, 2]]),) if full else ()):
        for g in ("none", "l1"):
            for acc in (False, True):
                add("gm_state", "%s:g=%s:acc=%s" % (Aname, g, acc), A=Am, g=g, acc=acc, cost=30)
    # inductive stopping harnesses with an ARBITRARY operator (every entry of A a solver variable)
    for Am in ("sym11", "sym21"):     # ("sym22": z3 answers unknown on the stopping obligation - outside)
        for g in ("none", "l1"):
            if not (Am == "sym21" and g == "l1"):      # z3 unknown on 4 of 15 paths: outside
                add("pdhg_state", "%s:g=%s" % (Am, g), A=Am, g=g, cost=100)
            for acc in (False, True):
                add("gm_state", "%s:g=%s:acc=%s" % (Am, g, acc), A=Am, g=g, acc=acc, cost=100)
    for solver in ("ConjugateGradient", "GradientMethod"):
        for mi in ((0, 1, 2) if (solver == "ConjugateGradient" or full) else (0, 1)):
            add("apprun", "%s:max_iter=%d" % (solver, mi), A=[[2, 1], [0, 1]], solver=solver, max_iter=mi)
    add("power", "sym2:k=2", A=[[2, 1], [1, 2]], lmax=3, max_iter=2)
    add("power", "psd2-singular:k=2", A=[[1, 1], [1, 1]], lmax=2, max_iter=2)
    add("power", "diag2:k=3", A=[[1, 0], [0, 4]], lmax=4, max_iter=3, cost=50)
    add("power", "sym3:k=2", A=[[2, 1, 0], [1, 2, 0], [0, 0, 1]], lmax=3, max_iter=2, cost=80)
    if full:
        add("power", "sym2:k=3", A=[[2, 1], [1, 2]], lmax=3, max_iter=3, cost=200)
        add("power", "rep3:k=2", A=[[2, 0, 0], [0, 2, 0], [0, 0, 1]], lmax=2, max_iter=2, cost=80)
    return out


def extra_phases(tier, seed, results):
    from symsig import chx
    viol, inc, summary, samples = chx.evaluate("ch/alg_loop.py", per_condition_timeout=30 if tier == "quick" else 120)
    return {"violations": viol, "inconclusive": inc, "summary": {"crosshair ch/alg_loop.py": summary}, "samples": samples,
            "evaluations": summary["contracts"], "distinct_nontrivial": summary["contracts"],
            "crosshair": {"module": "ch/alg_loop.py", "bounds": "0 <= max_iter <= 12 (symbolic int), 0..3 extra done() calls per round", "verdicts": summary["verdicts"]}}
