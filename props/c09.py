"""C09 - resize/shift/resample/block functions move exactly the documented elements."""
import itertools

import numpy as np

from symsig import oracle as O

PROPERTY = "C09"
FUNCTIONS = ["sigpy.util.resize", "sigpy.util.flip", "sigpy.util.circshift", "sigpy.util.downsample", "sigpy.util.upsample",
             "sigpy.block.array_to_blocks (+ _array_to_blocks1/2/3)", "sigpy.block.blocks_to_array (+ _blocks_to_array1/2/3)",
             "sigpy.linop.{Resize,Flip,Circshift,Downsample,Upsample,ArrayToBlocks,BlocksToArray} shape formulas"]
BOUNDS = {"quick": "1-D exhaustive: lengths 1..5, oshapes 1..6, shifts -n-1..n+1, factors 1..3 x all shifts, block sizes 1..3 x strides 1..4; "
                   "selected 2-D/3-D with batch axes",
          "thorough": "adds exhaustive 2-D grids (lengths 1..4 per axis) and 3-D block shapes"}
OUTSIDE = ["axis lengths > 6", "resize with caller-supplied shifts that do not fit (outside the documented domain)", "4-D blocks (cuda only)"]
ASSUMPTIONS = ["element values are arbitrary (pairwise unrelated symbolic complex numbers); shapes/shifts/strides enumerated"]
EXPLANATION = ("C09: each output element equals the documented input element (or 0 / a sum for blocks_to_array), compared against "
               "independent index-map oracles; every configuration decided for all element values.")


def _zeros(shape, V):
    return np.zeros(shape, dtype=object if V.symbolic else np.complex128)


def h_resize(cfg, V):
    from sigpy import util
    ish, osh, ishift, oshift = cfg["ishape"], cfg["oshape"], cfg["ishift"], cfg["oshift"]
    x = V.array("x", ish)
    y = util.resize(x, osh, ishift=ishift, oshift=oshift)
    nd = max(len(ish), len(osh))
    i1 = [1] * (nd - len(ish)) + list(ish)
    o1 = [1] * (nd - len(osh)) + list(osh)
    x1 = x.reshape(i1)
    ref = _zeros(o1, V)
    si = ishift if ishift is not None else [max(i // 2 - o // 2, 0) for i, o in zip(i1, o1)]
    so = oshift if oshift is not None else [max(o // 2 - i // 2, 0) for i, o in zip(i1, o1)]
    for idx in np.ndindex(*o1):
        src = tuple(j - b + a for j, a, b in zip(idx, si, so))
        if all(j >= b for j, b in zip(idx, so)) and all(a <= s < n for s, a, n in zip(src, si, i1)):
            ref[idx] = x1[src]
    obl = [("resize_elements", O.eq(y, ref.reshape(osh)))]
    if ishift is None and oshift is None:
        # centre alignment: input index n//2 lands on output index m//2 (when both exist)
        c_in = tuple(n // 2 for n in i1)
        c_out = tuple(m // 2 for m in o1)
        obl.append(("centre_aligned", O.eq(np.asarray(y).reshape(o1)[c_out], x1[c_in])))
    return obl


def h_flip(cfg, V):
    from sigpy import util
    sh, axes = cfg["shape"], cfg["axes"]
    x = V.array("x", sh)
    y = util.flip(x, axes)
    ax = range(len(sh)) if axes is None else [a % len(sh) for a in axes]
    ref = _zeros(sh, V)
    for idx in np.ndindex(*sh):
        src = tuple(sh[d] - 1 - i if d in ax else i for d, i in enumerate(idx))
        ref[idx] = x[src]
    return [("flip_elements", O.eq(y, ref))]


def h_circshift(cfg, V):
    from sigpy import util
    sh, shifts, axes = cfg["shape"], cfg["shifts"], cfg["axes"]
    x = V.array("x", sh)
    y = util.circshift(x, shifts, axes)
    ax = list(range(len(sh))) if axes is None else [a % len(sh) for a in axes]
    tot = [0] * len(sh)
    for a, s in zip(ax, shifts):
        tot[a] += s
    ref = _zeros(sh, V)
    for idx in np.ndindex(*sh):
        dst = tuple((i + t) % n for i, t, n in zip(idx, tot, sh))
        ref[dst] = x[idx]
    return [("circshift_elements", O.eq(y, ref))]


def h_downsample(cfg, V):
    from sigpy import util
    import sigpy as sp
    sh, f, s = cfg["shape"], cfg["factors"], cfg["shift"]
    x = V.array("x", sh)
    y = util.downsample(x, f, shift=s)
    s0 = s if s is not None else [0] * len(f)
    osh = [len(range(si, n, fi)) for si, n, fi in zip(s0, sh, f)]
    ref = _zeros(osh, V)
    for idx in np.ndindex(*osh):
        ref[idx] = x[tuple(si + k * fi for k, si, fi in zip(idx, s0, f))]
    obl = [("downsample_elements", O.eq(y, ref))]
    D = sp.linop.Downsample(sh, f, shift=s)
    obl.append(("Downsample_oshape", O.const(list(D.oshape) == osh)))
    z = V.array("z", osh)
    u = util.upsample(z, sh, f, shift=s)
    ref2 = _zeros(sh, V)
    for idx in np.ndindex(*osh):
        ref2[tuple(si + k * fi for k, si, fi in zip(idx, s0, f))] = z[idx]
    obl.append(("upsample_elements", O.eq(u, ref2)))
    U = sp.linop.Upsample(sh, f, shift=s)
    obl.append(("Upsample_ishape", O.const(list(U.ishape) == osh)))
    return obl


def h_blocks(cfg, V):
    from sigpy import block
    import sigpy as sp
    sh, B, S = cfg["shape"], cfg["blk"], cfg["strides"]
    D = len(B)
    batch = sh[:-D]
    N = sh[-D:]
    # number of windows that fit: starts 0, S, 2S, ... with start + B <= N
    nb = [len([st for st in range(0, n, s) if st + b <= n]) for n, b, s in zip(N, B, S)]
    x = V.array("x", sh)
    y = block.array_to_blocks(x, B, S)
    oshape = list(batch) + nb + list(B)
    ref = _zeros(oshape, V)
    for idx in np.ndindex(*oshape):
        bi = idx[:len(batch)]
        n_ = idx[len(batch):len(batch) + D]
        b_ = idx[len(batch) + D:]
        ref[idx] = x[bi + tuple(k * s + b for k, s, b in zip(n_, S, b_))]
    obl = [("array_to_blocks_elements", O.eq(y, ref))]
    A = sp.linop.ArrayToBlocks(sh, B, S)
    obl.append(("ArrayToBlocks_oshape", O.const(list(A.oshape) == oshape)))
    z = V.array("z", oshape)
    w = block.blocks_to_array(z, sh, B, S)
    ref2 = _zeros(sh, V)
    for idx in np.ndindex(*oshape):
        bi = idx[:len(batch)]
        n_ = idx[len(batch):len(batch) + D]
        b_ = idx[len(batch) + D:]
        dst = bi + tuple(k * s + b for k, s, b in zip(n_, S, b_))
        ref2[dst] = ref2[dst] + z[idx]
    obl.append(("blocks_to_array_sums", O.eq(w, ref2)))
    return obl


HARNESSES = {"resize": h_resize, "flip": h_flip, "circshift": h_circshift, "downsample": h_downsample, "blocks": h_blocks}


def configs(tier, seed):
    full = tier == "thorough"
    out = []

    def add(h, ident, **kw):
        kw.update(id="%s:%s" % (h, ident), h=h)
        out.append(kw)
    # resize
    for n in range(1, 6):
        for m in range(1, 7):
            add("resize", "%s->%s" % ([n], [m]), ishape=[n], oshape=[m], ishift=None, oshift=None)
    pairs2 = [([2, 3], [3, 2]), ([3, 3], [5, 2]), ([4, 2], [1, 5]), ([3], [2, 4]), ([2, 3], [6]), ([2, 1, 3], [3, 3]), ([2, 3], [1, 2, 3]),
              ([2, 2, 3], [3, 1, 4])]
    if full:
        pairs2 += [([a, b], [c, d]) for a in (1, 3, 4) for b in (2, 3) for c in (2, 3, 5) for d in (1, 4)]
    for i, o in pairs2:
        add("resize", "%s->%s" % (i, o), ishape=i, oshape=o, ishift=None, oshift=None)
    # explicit shifts that fit (documented domain): window [si, si+c) inside input and [so, so+c) inside output, c = min(i-si, o-so) > 0
    for n, m in ((5, 3), (3, 5), (4, 4), (2, 5), (5, 2)):
        for si in range(0, n):
            for so in range(0, m):
                if n == m:
                    continue
                add("resize", "%s->%s:ishift=%s:oshift=%s" % ([n], [m], [si], [so]), ishape=[n], oshape=[m], ishift=[si], oshift=[so])
    add("resize", "[3,4]->[5,2]:ishift=[0,1]:oshift=[2,0]", ishape=[3, 4], oshape=[5, 2], ishift=[0, 1], oshift=[2, 0])
    add("resize", "[3,4]->[5,2]:ishift=None:oshift=[1,0]", ishape=[3, 4], oshape=[5, 2], ishift=None, oshift=[1, 0])
    add("resize", "[5,2]->[3,4]:ishift=[1,0]:oshift=None", ishape=[5, 2], oshape=[3, 4], ishift=[1, 0], oshift=None)
    # flip
    for sh in ([1], [4], [5], [2, 3], [3, 2, 2]):
        nd = len(sh)
        axs = [None] + [list(c) for r in range(1, nd + 1) for c in itertools.combinations(range(nd), r)]
        axs += [[-1], [-nd]] + ([[0, -1]] if nd > 1 else [])
        seen = set()
        for ax in axs:
            if str(ax) in seen:
                continue
            seen.add(str(ax))
            add("flip", "%s:axes=%s" % (sh, ax), shape=sh, axes=ax)
    # circshift
    for n in range(1, 6):
        for s in range(-n - 1, n + 2):
            add("circshift", "%s:shift=%s" % ([n], [s]), shape=[n], shifts=[s], axes=None)
    for sh, shifts, axes in (([2, 3], [1, -1], None), ([2, 3], [2], [1]), ([2, 3], [-1], [-2]), ([2, 3, 2], [1, 1], [0, -1]), ([3, 2], [4, -3], [0, 1]),
                             ([2, 3], [1, 1], [1, 1]), ([3, 3], [1, 2], [-1, 0])):
        add("circshift", "%s:shift=%s:axes=%s" % (sh, shifts, axes), shape=sh, shifts=shifts, axes=axes)
    # down/upsample
    for n in range(1, 6):
        for f in (1, 2, 3):
            for s in [None] + list(range(0, min(f, n))):
                add("downsample", "%s:f=%s:s=%s" % ([n], [f], s), shape=[n], factors=[f], shift=None if s is None else [s])
    for sh, f, s in (([3, 4], [2, 3], [1, 0]), ([2, 5], [1, 2], None), ([4, 3, 2], [3, 2, 1], [2, 1, 0]), ([5, 5], [2, 2], [1, 1]), ([3, 3], [3, 3], [2, 0])):
        add("downsample", "%s:f=%s:s=%s" % (sh, f, s), shape=sh, factors=f, shift=s)
    # blocks
    for n in range(1, 6):
        for b in (1, 2, 3):
            for s in (1, 2, 3, 4):
                if b > n:
                    continue
                add("blocks", "%s:b=%s:s=%s" % ([n], [b], [s]), shape=[n], blk=[b], strides=[s])
    more = [([2, 4], [2], [1]), ([2, 4, 3], [2, 2], [2, 1]), ([4, 5], [2, 3], [1, 2]), ([3, 3, 3], [2, 2, 2], [1, 1, 1]), ([2, 3, 2, 3], [1, 2, 2], [2, 1, 1]),
            ([5, 4], [3, 2], [2, 3]), ([3, 4], [3, 1], [1, 4]),
            # three block dimensions with pairwise different strides and several blocks along every axis
            ([3, 4, 3], [2, 3, 1], [2, 1, 2]), ([4, 3, 4], [2, 2, 2], [2, 1, 3]), ([2, 5, 4], [1, 2, 2], [1, 2, 1]), ([3, 5, 3], [2, 2, 2], [1, 3, 2]),
            ([4, 4, 3], [1, 2, 1], [3, 1, 2])]
    more += [([n1, n2], [b1, b2], [s1, s2]) for n1 in (3, 4) for n2 in (2, 4) for b1 in (1, 2) for b2 in (1, 2) for s1 in (1, 2, 3) for s2 in (1, 3)
             if b1 <= n1 and b2 <= n2 and (full or (n1 + n2 + b1 + b2 + s1 + s2) % 2 == 0)]
    if full:
        more += [([2, 2, 3, 3], [2, 2, 2], [1, 2, 1]), ([5, 4, 4], [2, 2, 3], [3, 2, 1]), ([4, 5, 5], [3, 2, 2], [1, 3, 2])]
    for sh, b, s in more:
        add("blocks", "%s:b=%s:s=%s" % (sh, b, s), shape=sh, blk=b, strides=s)
    ids = set()
    res = []
    for c in out:
        if c["id"] not in ids:
            ids.add(c["id"])
            res.append(c)
    return res


def extra_phases(tier, seed, results):
    """CrossHair (z3 underneath) on the integer shape helpers with SYMBOLIC sizes"""
    from symsig import chx
    viol, inc, summary, samples = chx.evaluate("ch/shapes_c09.py", per_condition_timeout=150 if tier == "quick" else 400)
    return {"violations": viol, "inconclusive": inc, "summary": {"crosshair ch/shapes_c09.py": summary}, "samples": [], "evaluations": summary["contracts"],
            "distinct_nontrivial": summary["contracts"],
            "crosshair": {"module": "ch/shapes_c09.py", "bounds": "symbolic sizes within the ranges stated in each contract's pre-condition", "verdicts": summary["verdicts"],
                          "contracts": samples}}
