"""C01 - every linear operator's adjoint is its true adjoint."""
import random

from symsig import oracle as O
from . import catalogue as C
from . import trees

PROPERTY = "C01"
FUNCTIONS = ["sigpy.linop.* (_apply/_adjoint_linop of every class except Wavelet/ToDevice/AllReduce)",
             "sigpy.util.{resize,flip,circshift,downsample,upsample}", "sigpy.block.*", "sigpy.conv.*",
             "sigpy.interp.{interpolate,gridding} + kernels", "sigpy.fourier.{fft,ifft,nufft,nufft_adjoint,_apodize,_scale_coord}",
             "sigpy.mri.linop.Sense"]
BOUNDS = {"quick": "leaf catalogue (quick subset) + rule core + 60 seeded depth-2 trees; ndim<=4, axis length<=6, <=24 elements",
          "thorough": "full leaf catalogue + exhaustive depth-2 rule instances over the tree sub-catalogue + 300 seeded depth-3 trees"}
OUTSIDE = ["Wavelet/InverseWavelet (PyWavelets boundary, see C10)", "ToDevice / AllReduce with real devices or communicators",
           "NUFFT/Interpolate coordinates are concrete (kernel is transcendental in them); x, y and all array/scalar parameters are symbolic",
           "float rounding"]
ASSUMPTIONS = ["x in C^ishape, y in C^oshape and every operator parameter array/scalar are arbitrary complex (symbolic)"]
EXPLANATION = "C01: <A x, y> = <x, A^H y>, swapped shapes, A.H.H acts as A."


def h_adjoint(cfg, V):
    A = C.build(cfg["spec"], V)
    x = V.array("x", A.ishape)
    y = V.array("y", A.oshape)
    approx = C.has_float_pair(cfg["spec"])
    if approx:
        V.box(1)
    AH = A.H
    obl = [("shapes_swapped", O.const(list(AH.ishape) == list(A.oshape) and list(AH.oshape) == list(A.ishape)))]
    Ax = A(x)
    AHy = AH(y)
    if approx:
        # forward and adjoint NUFFT use different float constants for the same real numbers (1/sqrt(n) vs
        # n_os/sqrt(n)/n_os, ...): identity up to 1e-9 absolute for all inputs/parameters in the unit box
        obl.append(("adjoint_identity~", O.near(O.vdot(Ax, y), O.vdot(x, AHy), 1e-9)))
    else:
        obl.append(("adjoint_identity", O.eq(O.vdot(Ax, y), O.vdot(x, AHy))))
    obl.append(("double_adjoint", O.eq(AH.H(x), Ax)))
    return obl


HARNESSES = {"adjoint": h_adjoint}


def configs(tier, seed):
    out = []
    for spec in C.leaves(tier):
        out.append({"id": "leaf:" + C.sid(spec), "h": "adjoint", "spec": spec, "field": C.field_for(spec)})
    for spec in trees.tree_specs(tier, seed):
        out.append({"id": "tree:" + C.sid(spec), "h": "adjoint", "spec": spec, "field": C.field_for(spec)})
    return _dedup(out)


def _dedup(cfgs):
    seen, out = set(), []
    for c in cfgs:
        if c["id"] not in seen:
            seen.add(c["id"])
            out.append(c)
    return out
