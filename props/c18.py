"""C18 - Poisson-disc masks: binary, within tol of the requested acceleration or an error, calibration region sampled, corners cropped,
depend only on the arguments, NumPy's global RNG state restored.  (The Bridson sampler itself - a random process - is outside.)"""
import ast
import copy
import inspect
import textwrap
from fractions import Fraction

import numpy as np

from symsig import oracle as O
from symsig import scalar as S
from symsig.scalar import B

PROPERTY = "C18"
FUNCTIONS = ["sigpy.mri.samp.poisson (binary search abstracted to its last iteration by an AST pass over the current source; _poisson stubbed)",
             "sigpy.mri.samp._poisson: calibration-block slice arithmetic (translated from the current source to z3 integer/real arithmetic), "
             "stores into the mask (structural)"]
BOUNDS = {"quick": "image shapes 3x3, 3x4, 4x3, 4x4 (every mask entry an independent 0/1 solver variable), calib in {(0,0), (1,1), (2,1), (2,2)} with calib <= shape - 2 per axis, accel > 1, tol > 0 "
                   "symbolic, crop_corner on/off, seed 0 / None; call histories of length 2; calibration slice: ALL integers n >= 1, 0 <= c <= n (unbounded LIA)",
          "thorough": "adds 5x4, 4x6, 5x5 and calib (3,2), (4,4)"}
OUTSIDE = ["the Bridson sampler inside _poisson (random process on numba's own generator): which points are drawn, their spacing, and reproducibility of "
           "numba's seeded stream", "how many binary-search iterations run (the last one is analysed from an arbitrary admissible slope interval)",
           "image shapes beyond the bound (the outer function is shape-generic Python/NumPy code)"]
ASSUMPTIONS = ["_poisson(...) -> an ARBITRARY 0/1 mask whose calibration block is 1 (that block is established separately from _poisson's own slice "
               "arithmetic); identical arguments give the identical arbitrary mask (determinism of the seeded sampler is numba's)",
               "loop abstraction (generated from the current source): `while slope_min < slope_max: BODY` -> BODY once from a havocked (slope_min, slope_max) "
               "with the inductive invariant 0 <= slope_min < slope_max <= max(nx, ny), followed by `not (slope_min < slope_max)` unless BODY hit `break`; "
               "sound for facts about the state after the loop because every other variable the loop reads is reassigned in BODY before use",
               "np.random.get_state / set_state / seed are replaced by state tokens (the state is 'prior' until something seeds or draws)"]
EXPLANATION = ("C18: on every path of the real outer function: the returned mask equals the sampler's 0/1 mask (times the r < 1 indicator when cropping), so it is "
               "binary; |size/sum - accel| < tol on every normal return, and ValueError is raised exactly when the last mask is out of tolerance; accel <= 1 is "
               "rejected; the calibration block is all ones in the result; nothing outside r < 1 when cropping; the global RNG state token after a normal "
               "return is the one saved at entry; the arguments handed to the sampler and the crop depend only on the call's own arguments (a call preceded "
               "by a different call gives the same result as in a fresh module state).  _poisson's calibration block has exactly calib entries per axis, "
               "inside the grid and centred, for all sizes (z3, linear integer arithmetic), and _poisson only ever stores 1 into the mask.")
CONFIG_BUDGET_S = {"quick": 900, "thorough": 1800}


# --------------------------------------------------------------------------- source transformation

def _bisection_names(node):
    """(lo, hi) if node is `while lo < hi:` over two plain names (the binary search of poisson, whatever its variables are called)"""
    t = node.test
    if isinstance(t, ast.Compare) and len(t.ops) == 1 and isinstance(t.ops[0], ast.Lt) and isinstance(t.left, ast.Name) \
            and isinstance(t.comparators[0], ast.Name):
        return t.left.id, t.comparators[0].id
    return None


class _LoopAbstraction(ast.NodeTransformer):
    def __init__(self):
        self.count = 0

    def visit_While(self, node):
        lo_hi = _bisection_names(node)
        if lo_hi is None or self.count:
            return node
        self.count += 1
        lo, hi = lo_hi
        havoc = ast.parse("%s, %s = __havoc__(%s, %s)" % (lo, hi, lo, hi)).body[0]
        once = ast.For(target=ast.Name(id="__once", ctx=ast.Store()), iter=ast.Tuple(elts=[ast.Constant(0)], ctx=ast.Load()),
                       body=node.body, orelse=[ast.Expr(ast.Call(func=ast.Name(id="__exit__", ctx=ast.Load()), args=[node.test], keywords=[]))],
                       type_comment=None)
        return [havoc, once]


def _transformed(ns_extra):
    """the current source of sigpy.mri.samp.poisson with the binary-search loop abstracted; fresh module namespace (mutable module-level
    containers copied) so that module state never leaks between harness runs"""
    from sigpy.mri import samp
    src = textwrap.dedent(inspect.getsource(samp.poisson))
    tree = ast.parse(src)
    tr = _LoopAbstraction()
    tree = tr.visit(tree)
    if tr.count != 1:
        raise RuntimeError("expected a `while lo < hi` bisection loop in poisson, found %d" % tr.count)
    ast.fix_missing_locations(tree)
    ns = {}
    for k, v in samp.__dict__.items():
        ns[k] = copy.deepcopy(v) if isinstance(v, (dict, list, set)) and not k.startswith("__") else v
    ns.update(ns_extra)
    # helper functions defined in the module keep their own globals: re-bind those that are plain Python functions of this module
    import types
    for k, v in list(ns.items()):
        if isinstance(v, types.FunctionType) and v.__module__ == samp.__name__ and k not in ns_extra and k != "poisson":
            ns[k] = types.FunctionType(v.__code__, ns, v.__name__, v.__defaults__, v.__closure__)
    exec(compile(tree, "<poisson: loop abstracted>", "exec"), ns)
    return ns["poisson"], ns


class _Rand:
    """numpy.random with the global state as a token"""

    def __init__(self, world):
        self.w = world

    def get_state(self):
        return ("state", self.w["state"])

    def set_state(self, st):
        self.w["state"] = st[1]

    def seed(self, s=None):
        self.w["state"] = "seeded(%r)#%d" % (s, self.w["tick"])
        self.w["tick"] += 1

    def __getattr__(self, k):
        def draw(*a, **kw):
            self.w["state"] = "advanced#%d" % self.w["tick"]
            self.w["tick"] += 1
            return getattr(np.random, k)(*a, **kw)
        return draw


class _NpProxy:
    def __init__(self, world):
        self.random = _Rand(world)

    def __getattr__(self, k):
        return getattr(np, k)


class World:
    """environment of one harness: RNG state token, recorded sampler calls, symbolic masks per distinct argument signature"""

    def __init__(self, V):
        self.V = V
        self.w = {"state": "prior", "tick": 0}
        self.calls = []
        self.masks = {}
        self.havocs = 0
        self.havoc_names = None
        self.concrete_ones = False

    def sampler(self, nx, ny, max_attempts, radius_x, radius_y, calib, seed=None):
        V = self.V
        sig = "%dx%d_c%s_s%s" % (ny, nx, "x".join(str(int(c)) for c in calib), seed)
        self.calls.append({"nx": nx, "ny": ny, "max_attempts": max_attempts, "rx": np.array(radius_x, copy=True), "ry": np.array(radius_y, copy=True),
                           "calib": tuple(calib), "seed": seed})
        if seed is not None:
            self.w["state"] = "sampler-seeded(%r)" % (seed,)       # (NUMBA_DISABLE_JIT semantics: the Python source would seed NumPy's global generator)
        if self.concrete_ones:
            return np.ones((ny, nx), dtype=object if V.symbolic else np.float64)
        if sig not in self.masks:
            m = V.array("m_" + sig, [ny, nx], False)
            lo_y, hi_y, lo_x, hi_x = _calib_block(ny, nx, calib)
            if V.symbolic:
                conds = []
                for i in range(ny):
                    for j in range(nx):
                        if lo_y <= i < hi_y and lo_x <= j < hi_x:
                            m[i, j] = S.SymK.lift(1)
                        else:
                            conds.append(O.eq(m[i, j] * (m[i, j] - 1), 0))
                V.assume(B.and_(*conds), "sampler mask entries are 0 or 1")
            else:
                m = (np.abs(m) > 0.4).astype(np.float64)
                m[lo_y:hi_y, lo_x:hi_x] = 1
            self.masks[sig] = m
        return np.array(self.masks[sig], copy=True)

    def havoc(self, smin, smax):
        V = self.V
        self.havocs += 1
        top = smax            # the code's initial upper end max(nx, ny)
        nm = self.havoc_names[self.havocs - 1] if self.havoc_names else "slope%d" % self.havocs
        a, b = V.scalar(nm + "_min"), V.scalar(nm + "_max")
        V.assume(a >= smin, "invariant: slope_min >= 0")
        V.assume(a < b, "loop entered: slope_min < slope_max")
        V.assume(b <= top, "invariant: slope_max <= max(nx, ny)")
        return a, b

    def exit(self, cond):
        if isinstance(cond, S.SymBool):
            self.V.assume(B.not_(cond.b), "loop exit: not (slope_min < slope_max)")
        elif isinstance(cond, B):
            self.V.assume(B.not_(cond), "loop exit")
        elif bool(cond):
            if self.V.symbolic:
                raise S.Abort("not the last iteration")
            self.V.ok = False

    def build(self):
        fn, ns = _transformed({"np": _NpProxy(self.w), "_poisson": self.sampler, "__havoc__": self.havoc, "__exit__": self.exit})
        return fn


def _calib_block(ny, nx, calib):
    """documented calibration region: calib entries per axis, centred (lower index floor((n - c)/2))"""
    cy, cx = int(calib[-2]), int(calib[-1])
    ly, lx = (ny - cy) // 2, (nx - cx) // 2
    return ly, ly + cy, lx, lx + cx


def _radius(img, calib):
    """documented normalised radius: distance beyond the calibration region, scaled to 1 at the edge of each axis"""
    ny, nx = img
    y, x = np.mgrid[:ny, :nx]
    x = np.maximum(abs(x - nx / 2) - calib[-1] / 2, 0)
    x = x / x.max()
    y = np.maximum(abs(y - ny / 2) - calib[-2] / 2, 0)
    y = y / y.max()
    return np.sqrt(x ** 2 + y ** 2)


def _call(world, fn, cfg, V, accel, tol, calib=None):
    img = cfg["img"]
    calib = tuple(cfg["calib"]) if calib is None else tuple(calib)
    st0 = world.w["state"]
    n0 = len(world.calls)
    try:
        mask = fn(tuple(img), accel, calib=calib, dtype=object if V.symbolic else np.complex128, crop_corner=cfg["crop"], seed=cfg["seed"], tol=tol)
        err = None
    except ValueError as e:
        mask, err = None, e
    return mask, err, st0, world.calls[n0:]


def h_outer(cfg, V):
    img, calib = cfg["img"], tuple(cfg["calib"])
    ny, nx = img
    accel, tol = V.scalar("accel"), V.scalar("tol")
    V.assume(accel > 1, "accel > 1")
    V.assume(tol > 0, "tol > 0")
    world = World(V)
    fn = world.build()
    mask, err, st0, calls = _call(world, fn, cfg, V, accel, tol)
    obl = [("sampler_called_once_in_the_last_iteration", O.const(len(calls) == 1))]
    if not calls:
        return obl
    m = world.masks[list(world.masks)[-1]]
    r = _radius(img, calib)
    inside = (r < 1) if cfg["crop"] else np.ones(img, dtype=bool)
    eff = np.array([[m[i, j] if inside[i, j] else 0 for j in range(nx)] for i in range(ny)], dtype=object if V.symbolic else np.float64)
    tot = 0
    for v in eff.ravel():
        tot = tot + v
    size = nx * ny
    if V.symbolic:
        within = (abs(size / tot - accel) < tol).b      # same expression shape as the code's test (its sign decisions are already on the path)
    else:
        within = O.const(tot > 0 and abs(size / tot - accel) < tol)
    if err is not None:
        obl.append(("error_only_when_out_of_tolerance", B.not_(within)))
        return obl
    obl.append(("mask_shape", O.const(list(np.shape(mask)) == list(img))))
    obl.append(("mask_is_sampler_mask_times_crop", O.eq(mask, eff)))
    obl.append(("mask_binary", O.all_([B.or_(O.eq(v, 0), O.eq(v, 1)) for v in np.ravel(mask)])))
    obl.append(("acceleration_within_tol", within))
    ly, hy, lx, hx = _calib_block(ny, nx, calib)
    obl.append(("calibration_region_sampled", O.all_([O.eq(mask[i, j], 1) for i in range(ly, hy) for j in range(lx, hx)])))
    if cfg["crop"]:
        obl.append(("nothing_outside_the_ellipse", O.all_([O.eq(mask[i, j], 0) for i in range(ny) for j in range(nx) if not r[i, j] < 1])))
    obl.append(("global_rng_state_restored", O.const(world.w["state"] == st0)))
    c = calls[0]
    obl.append(("sampler_gets_own_arguments", O.const(c["nx"] == nx and c["ny"] == ny and tuple(c["calib"]) == calib and c["seed"] == cfg["seed"])))
    return obl


def h_history(cfg, V):
    """depends only on the arguments: the same call after a DIFFERENT earlier call (same shape, other calib) in one module state equals
    the call made in a fresh module state (same arbitrary sampler masks, same slope interval)"""
    accel, tol = V.scalar("accel"), V.scalar("tol")
    V.assume(accel > 1, "accel > 1")
    V.assume(tol > 0, "tol > 0")
    wA = World(V)
    wA.havoc_names = ["slope1"]
    fA = wA.build()
    maskA, errA, _, callsA = _call(wA, fA, cfg, V, accel, tol)
    wB = World(V)
    wB.masks = wA.masks                    # identical sampler arguments -> the identical arbitrary mask
    wB.havoc_names = ["slope0", "slope1"]
    fB = wB.build()
    # the earlier call: other calib, concrete all-ones sampler mask, corner cropping, an acceleration it meets at once (one concrete path)
    rb = _radius(cfg["img"], tuple(cfg["calib_before"]))
    acc_b = cfg["img"][0] * cfg["img"][1] / float(np.sum(rb < 1))
    wB.concrete_ones = True
    before = dict(cfg, crop=True)
    _call(wB, fB, before, V, acc_b + 0.01 if acc_b > 1 else 1.01, 0.5 if acc_b > 1 else 1e9, calib=cfg["calib_before"])
    wB.concrete_ones = False
    maskB, errB, _, callsB = _call(wB, fB, cfg, V, accel, tol)
    callsB = callsB[-1:]
    obl = [("same_outcome_kind", O.const((errA is None) == (errB is None) and len(callsA) == len(callsB) == 1))]
    if wB.havocs != 2:
        obl.append(("history_call_reached_the_loop", O.const(False)))
    if len(callsA) == 1 and len(callsB) == 1:
        a, b = callsA[0], callsB[0]
        obl.append(("sampler_arguments_independent_of_history", B.and_(O.eq(a["rx"], b["rx"]), O.eq(a["ry"], b["ry"]),
                                                                       O.const(a["calib"] == b["calib"] and a["seed"] == b["seed"]))))
    if errA is None and errB is None:
        obl.append(("mask_independent_of_history", O.eq(maskA, maskB)))
    return obl


HARNESSES = {"outer": h_outer, "history": h_history}


# --------------------------------------------------------------------------- _poisson: calibration slice arithmetic via z3

def _slice_bounds_z3():
    """translate the four slice bounds of `mask[ a:b, c:d ] = 1` in the current source of _poisson into z3 terms over (nx, ny, cx, cy)"""
    import z3
    from sigpy.mri import samp
    fn = samp._poisson
    fn = getattr(fn, "py_func", fn)
    tree = ast.parse(textwrap.dedent(inspect.getsource(fn)))
    nx, ny, cx, cy = z3.Ints("nx ny cx cy")
    env = {}

    def tr(e):
        if isinstance(e, ast.Constant):
            return z3.RealVal(e.value) if not isinstance(e.value, int) else z3.ToReal(z3.IntVal(e.value))
        if isinstance(e, ast.Name):
            if e.id in env:
                return env[e.id]
            return z3.ToReal({"nx": nx, "ny": ny}[e.id])
        if isinstance(e, ast.Subscript) and isinstance(e.value, ast.Name) and e.value.id == "calib":
            idx = ast.literal_eval(e.slice)
            return z3.ToReal({-1: cx, -2: cy, 1: cx, 0: cy}[idx])
        if isinstance(e, ast.BinOp):
            a, b = tr(e.left), tr(e.right)
            if isinstance(e.op, ast.Add):
                return a + b
            if isinstance(e.op, ast.Sub):
                return a - b
            if isinstance(e.op, ast.Mult):
                return a * b
            if isinstance(e.op, ast.Div):
                return a / b
            if isinstance(e.op, ast.FloorDiv):
                return z3.ToReal(z3.ToInt(a / b))
        if isinstance(e, ast.Call) and isinstance(e.func, ast.Name) and e.func.id == "int" and len(e.args) == 1:
            a = tr(e.args[0])
            return z3.ToReal(z3.If(a >= 0, z3.ToInt(a), -z3.ToInt(-a)))        # truncation toward zero
        raise ValueError("untranslatable expression in the calibration slice: %s" % ast.dump(e))
    stores = []
    bounds = None
    # straight-line local definitions that precede the store (e.g. half = calib[-1] // 2) are bound in order
    fdef = tree.body[0]
    for st in fdef.body:
        if isinstance(st, ast.Assign) and len(st.targets) == 1 and isinstance(st.targets[0], ast.Name):
            try:
                env[st.targets[0].id] = tr(st.value)
            except Exception:
                pass
        elif isinstance(st, ast.Assign) and len(st.targets) == 1 and isinstance(st.targets[0], ast.Subscript):
            break
    for node in ast.walk(tree):
        if isinstance(node, ast.Assign) and len(node.targets) == 1 and isinstance(node.targets[0], ast.Subscript) \
                and isinstance(node.targets[0].value, ast.Name) and node.targets[0].value.id == "mask":
            stores.append(node)
            sl = node.targets[0].slice
            if isinstance(sl, ast.Tuple) and all(isinstance(s, ast.Slice) for s in sl.elts) and bounds is None:
                ys, xs = sl.elts
                bounds = (tr(ys.lower), tr(ys.upper), tr(xs.lower), tr(xs.upper))
    only_ones = all(isinstance(n.value, ast.Constant) and n.value.value == 1 for n in stores)
    aug = [n for n in ast.walk(tree) if isinstance(n, ast.AugAssign) and isinstance(n.target, ast.Subscript)
           and isinstance(n.target.value, ast.Name) and n.target.value.id == "mask"]
    return (nx, ny, cx, cy), bounds, only_ones and not aug, len(stores)


def _progress_query():
    """IEEE-754 double semantics of the binary search (translated from the current source): if an iteration neither breaks nor changes
    (slope_min, slope_max) while `slope_min < slope_max` still holds, every later iteration repeats it - the loop never ends.
    returns (verdict, model dict or None, smt2 text)"""
    import z3
    from sigpy.mri import samp
    tree = ast.parse(textwrap.dedent(inspect.getsource(samp.poisson)))
    loop = None
    for node in ast.walk(tree):
        if isinstance(node, ast.While) and _bisection_names(node) and loop is None:
            loop = node
    if loop is None:
        raise RuntimeError("binary-search loop not found")
    LO, HI = _bisection_names(loop)
    F = z3.Float64()
    rm = z3.RNE()
    smin, smax = z3.FP("slope_min", F), z3.FP("slope_max", F)
    env = {LO: smin, HI: smax}

    def tr(e):
        if isinstance(e, ast.Constant) and isinstance(e.value, (int, float)):
            return z3.FPVal(float(e.value), F)
        if isinstance(e, ast.Name) and e.id in env:
            return env[e.id]
        if isinstance(e, ast.BinOp):
            a, b = tr(e.left), tr(e.right)
            if isinstance(e.op, ast.Add):
                return z3.fpAdd(rm, a, b)
            if isinstance(e.op, ast.Sub):
                return z3.fpSub(rm, a, b)
            if isinstance(e.op, ast.Mult):
                return z3.fpMul(rm, a, b)
            if isinstance(e.op, ast.Div):
                return z3.fpDiv(rm, a, b)
        raise ValueError("not an expression over the slope variables: %s" % ast.unparse(e))

    def trb(e):
        if isinstance(e, ast.BoolOp):
            vs = [trb(v) for v in e.values]
            return z3.Or(vs) if isinstance(e.op, ast.Or) else z3.And(vs)
        if isinstance(e, ast.UnaryOp) and isinstance(e.op, ast.Not):
            return z3.Not(trb(e.operand))
        if isinstance(e, ast.Compare) and len(e.ops) == 1:
            a, b = tr(e.left), tr(e.comparators[0])
            op = e.ops[0]
            return {ast.Eq: z3.fpEQ, ast.NotEq: z3.fpNEQ, ast.Lt: z3.fpLT, ast.LtE: z3.fpLEQ, ast.Gt: z3.fpGT, ast.GtE: z3.fpGEQ}[type(op)](a, b)
        raise ValueError("not a condition over the slope variables")
    no_break = []          # conditions (over the slope variables only) under which the body breaks: assumed false
    finals = []            # possible (slope_min', slope_max') after the body
    for st in loop.body:
        if isinstance(st, ast.Assign) and len(st.targets) == 1 and isinstance(st.targets[0], ast.Name):
            try:
                env[st.targets[0].id] = tr(st.value)
            except ValueError:
                pass
        elif isinstance(st, ast.If):
            has_break = any(isinstance(n, ast.Break) for n in ast.walk(st))
            assigns = [n for n in ast.walk(st) if isinstance(n, ast.Assign) and isinstance(n.targets[0], ast.Name)
                       and n.targets[0].id in (LO, HI)]
            if has_break and not assigns:
                try:
                    no_break.append(z3.Not(trb(st.test)))
                except (ValueError, KeyError):
                    pass       # depends on the mask: may or may not break - a run that never breaks there is the non-terminating one
            elif assigns:
                for branch in (st.body, st.orelse):
                    e2 = dict(env)
                    for n in branch:
                        if isinstance(n, ast.Assign) and isinstance(n.targets[0], ast.Name):
                            e2[n.targets[0].id] = tr(n.value)
                    finals.append((e2[LO], e2[HI]))
    if not finals:
        raise RuntimeError("no update of slope_min / slope_max found in the loop body")
    pre = z3.And(z3.Not(z3.fpIsNaN(smin)), z3.Not(z3.fpIsNaN(smax)), z3.Not(z3.fpIsInf(smax)), z3.fpGEQ(smin, z3.FPVal(0.0, F)),
                 z3.fpLT(smin, smax), z3.fpLEQ(smax, z3.FPVal(1048576.0, F)))
    stuck = z3.Or([z3.And(z3.fpEQ(a, smin), z3.fpEQ(b, smax), z3.fpLT(a, b)) for a, b in finals])
    sv = z3.Solver()
    sv.set("timeout", 300000)
    sv.add(pre, *no_break)
    sv.add(stuck)
    r = str(sv.check())
    model = None
    if r == "sat":
        m = sv.model()

        def val(v):
            x = m.eval(v, model_completion=True)
            return float(eval(str(x).replace("*(2**", "*(2.0**"))) if "2**" in str(x) else float(str(x))
        model = {"slope_min": val(smin), "slope_max": val(smax)}
    return r, model, sv.to_smt2()


def _replay_progress(model):
    """(1) the model's doubles in real float arithmetic; (2) an end-to-end witness: a request that cannot be met must end in ValueError"""
    import os
    import subprocess
    import sys
    a, b = model["slope_min"], model["slope_max"]
    mid = (b + a) / 2
    arith = a < b and (mid == a or mid == b)
    code = "import sigpy.mri as m\ntry:\n    m.poisson((32, 32), 12, seed=1, crop_corner=False)\n    print('RETURNED')\nexcept ValueError:\n    print('RAISED')\n"
    env = dict(os.environ)
    env.pop("NUMBA_DISABLE_JIT", None)
    try:
        r = subprocess.run([sys.executable, "-c", code], capture_output=True, text=True, env=env, timeout=90)
        hang = False
        outcome = r.stdout.strip()[-20:]
    except subprocess.TimeoutExpired:
        hang, outcome = True, "no answer within 90 s"
    return arith and hang, "midpoint of (%r, %r) is %r (no progress: %s); poisson((32,32), 12, seed=1, crop_corner=False): %s" % (a, b, mid, arith, outcome)


def extra_phases(tier, seed, results):
    """z3 (linear integer/real arithmetic, unbounded sizes): the calibration block written by _poisson; z3 (floating point): progress of the search"""
    import time
    import z3
    t0 = time.time()
    out = {"violations": [], "harness_errors": [], "inconclusive": [], "samples": [], "summary": {}}
    try:
        pr, pmodel, psmt = _progress_query()
        out["samples"].append({"cfg": "binary-search-progress", "obligation": "every_iteration_breaks_or_shrinks_the_interval", "verdict": pr,
                               "path_condition": ["0 <= slope_min < slope_max <= 2^20 (IEEE doubles)"], "negated_goal_smt2": psmt[:600]})
        if pr == "sat":
            ok, msg = _replay_progress(pmodel)
            if ok:
                import json
                import os
                from symsig import runner
                os.makedirs(runner.REPLAY_DIR, exist_ok=True)
                path = os.path.join(runner.REPLAY_DIR, "C18_progress.json")
                with open(path, "w") as fh:
                    json.dump({"property": "C18", "module": "props.c18", "extra": "progress", "vals": pmodel,
                               "obligation": "every_iteration_breaks_or_shrinks_the_interval"}, fh, indent=1)
                out["violations"].append(("binary-search-progress", "every_iteration_breaks_or_shrinks_the_interval", path, "REPRODUCED: " + msg))
            else:
                out["harness_errors"].append(("binary-search-progress", "floating-point model did not reproduce: " + msg))
        elif pr != "unsat":
            out["inconclusive"].append(("binary-search-progress", "solver %s" % pr))
        out["summary"]["binary_search_progress (z3 QF_FP, doubles)"] = pr
    except Exception as e:      # noqa
        out["harness_errors"].append(("binary-search-progress", "cannot translate the binary search of poisson: %r" % (e,)))
    try:
        (nx, ny, cx, cy), b, only_ones, nstores = _slice_bounds_z3()
    except Exception as e:      # noqa
        out["harness_errors"].append(("calib-slice", "cannot translate the calibration slice of _poisson: %r" % (e,)))
        return out
    if b is None:
        out["harness_errors"].append(("calib-slice", "no `mask[a:b, c:d] = 1` store found in _poisson"))
        return out
    ylo, yhi, xlo, xhi = b
    pre = z3.And(nx >= 1, ny >= 1, cx >= 0, cy >= 0, cx <= nx, cy <= ny)
    goals = {
        "rows_extent_is_calib": yhi - ylo == z3.ToReal(cy), "cols_extent_is_calib": xhi - xlo == z3.ToReal(cx),
        "rows_inside_grid": z3.And(ylo >= 0, yhi <= z3.ToReal(ny)), "cols_inside_grid": z3.And(xlo >= 0, xhi <= z3.ToReal(nx)),
        "rows_centred": z3.And(2 * ylo <= z3.ToReal(ny - cy), z3.ToReal(ny - cy) <= 2 * ylo + 1),
        "cols_centred": z3.And(2 * xlo <= z3.ToReal(nx - cx), z3.ToReal(nx - cx) <= 2 * xlo + 1),
    }
    nq = 0
    for name, g in goals.items():
        sv = z3.Solver()
        sv.set("timeout", 60000)
        # (the other axis needs at least one calibration entry for a wrong extent to be observable in the mask)
        sv.add(pre, (cx >= 1) if name.startswith("rows") else (cy >= 1), z3.Not(g))
        r = str(sv.check())
        nq += 1
        if len(out["samples"]) < 2:
            out["samples"].append({"cfg": "calib-slice", "obligation": name, "verdict": r, "path_condition": [str(pre)], "negated_goal_smt2": sv.to_smt2()[:600]})
        if r == "sat":
            m = sv.model()
            vals = {str(v): m.eval(v, model_completion=True).as_long() for v in (nx, ny, cx, cy)}
            ok, msg = _replay_calib(vals)
            if ok:
                import json
                import os
                from symsig import runner
                os.makedirs(runner.REPLAY_DIR, exist_ok=True)
                path = os.path.join(runner.REPLAY_DIR, "C18_calib_%s.json" % name)
                with open(path, "w") as fh:
                    json.dump({"property": "C18", "module": "props.c18", "extra": "calib", "vals": vals, "obligation": name}, fh, indent=1)
                out["violations"].append(("calib-slice", name, path, "REPRODUCED on the real _poisson: %s %s" % (vals, msg)))
            else:
                out["harness_errors"].append(("calib-slice", "model %s for %s did not reproduce on the real _poisson: %s" % (vals, name, msg)))
        elif r != "unsat":
            out["inconclusive"].append(("calib-slice", "solver %s on %s" % (r, name)))
    # vacuity: the precondition is satisfiable and a false claim is refuted
    sv = z3.Solver()
    sv.add(pre, z3.Not(yhi - ylo == z3.ToReal(cy) + 1))      # a deliberately false claim must be refuted (sat)
    twin = str(sv.check())
    if not only_ones:
        ok, msg = _replay_binary()
        if ok:
            out["violations"].append(("poisson-stores", "mask_stores_are_ones", "n/a", "REPRODUCED: " + msg))
        else:
            out["harness_errors"].append(("poisson-stores", "a store into mask is not the constant 1 (structural) but the sampled masks are binary: " + msg))
    out["evaluations"] = nq + 2
    out["distinct_nontrivial"] = nq
    out["summary"].update({"calibration_slice_queries (z3, LIA/LRA, all n >= 1, 0 <= c <= n)": "%d, reachability twin (false claim extent = calib + 1 refuted: %s)" % (nq, twin),
                      "stores_into_mask_in__poisson": "%d, all the constant 1: %s" % (nstores, only_ones), "extra_phase_s": round(time.time() - t0, 2)})
    if twin != "sat":
        out["harness_errors"].append(("calib-slice", "reachability twin: a false extent claim was not refuted (%s)" % twin))
    return out


def replay_extra(rec):
    if rec.get("extra") == "progress":
        ok, msg = _replay_progress(rec["vals"])
        print(("REPRODUCED" if ok else "NOT-REPRODUCED") + " property=C18 binary search of poisson: " + msg)
        return 1 if ok else 0
    ok, msg = _replay_calib(rec["vals"])
    print(("REPRODUCED" if ok else "NOT-REPRODUCED") + " property=C18 calibration block of _poisson for %s: %s" % (rec["vals"], msg))
    return 1 if ok else 0


def _replay_calib(vals):
    """run the real (JIT) _poisson on the model's sizes and look at the block"""
    import subprocess
    import sys
    code = ("import numpy as np, sigpy.mri.samp as s\n"
            "nx,ny,cx,cy=%d,%d,%d,%d\n"
            "n=max(nx,ny)\n"
            "m=s._poisson(nx,ny,1,np.full((ny,nx),3.0*n),np.full((ny,nx),3.0*n),(cy,cx),0)\n"
            "ly,lx=(ny-cy)//2,(nx-cx)//2\n"
            "blk=np.zeros((ny,nx));blk[ly:ly+cy,lx:lx+cx]=1\n"
            "bad=int(np.sum((blk==1)&(m!=1)))\n"
            "print('MISSING',bad)\n" % (vals["nx"], vals["ny"], vals["cx"], vals["cy"]))
    import os
    env = dict(os.environ)
    env.pop("NUMBA_DISABLE_JIT", None)
    r = subprocess.run([sys.executable, "-c", code], capture_output=True, text=True, env=env, timeout=600)
    txt = (r.stdout + r.stderr).strip()
    if "MISSING" in r.stdout:
        bad = int(r.stdout.split("MISSING")[1].split()[0])
        return bad > 0, "%d calibration points not set" % bad
    return False, txt[-300:]


def _replay_binary():
    import subprocess
    import sys
    import os
    code = ("import numpy as np, sigpy.mri as m\n"
            "a=m.poisson((32,32),4,calib=(6,6),seed=1,dtype=float)\n"
            "print('NONBINARY', int(np.sum((a!=0)&(a!=1))))\n")
    env = dict(os.environ)
    env.pop("NUMBA_DISABLE_JIT", None)
    r = subprocess.run([sys.executable, "-c", code], capture_output=True, text=True, env=env, timeout=600)
    if "NONBINARY" in r.stdout:
        n = int(r.stdout.split("NONBINARY")[1].split()[0])
        return n > 0, "%d non-binary entries in poisson((32,32), 4, calib=(6,6), seed=1)" % n
    return False, (r.stdout + r.stderr)[-300:]


def configs(tier, seed):
    full = tier == "thorough"
    out = []
    imgs = [[3, 3], [3, 4], [4, 3], [4, 4]] + ([[5, 4], [4, 6], [5, 5]] if full else [])
    calibs = [(0, 0), (1, 1), (2, 1), (2, 2)] + ([(3, 2), (4, 4)] if full else [])
    for img in imgs:
        for calib in calibs:
            if calib[0] > img[0] - 2 or calib[1] > img[1] - 2:
                continue        # (property: shapes 16..128; with n - c = 1 the half-pixel offset of the block puts its far edge on r = 1)
            for crop in (True, False):
                for sd in (0, None):
                    if not full and (sd is None and (crop or calib != (1, 1))):
                        continue
                    if not full and not crop and img[0] != img[1] and calib == (0, 0):
                        continue        # > 100 paths (clip thresholds of the non-square radius x 12 free mask entries)
                    if not crop and img[0] != img[1] and img[0] * img[1] > 12:
                        continue        # non-square grids beyond 12 entries without cropping: > 300 paths, > 30 min
                    out.append({"id": "outer:%s:calib=%s:crop=%s:seed=%s" % (img, list(calib), crop, sd), "h": "outer", "img": img, "calib": list(calib),
                                "crop": crop, "seed": sd, "max_paths": 2000, "cost": img[0] * img[1]})
    # a large calibration block whose corners lie outside the plain inscribed ellipse of the grid: they must survive corner cropping
    out.append({"id": "outer:[8, 8]:calib=[6, 6]:crop=True:seed=0", "h": "outer", "img": [8, 8], "calib": [6, 6], "crop": True, "seed": 0,
                "max_paths": 2000, "cost": 200})
    out.append({"id": "outer:[6, 8]:calib=[4, 6]:crop=True:seed=0", "h": "outer", "img": [6, 8], "calib": [4, 6], "crop": True, "seed": 0,
                "max_paths": 2000, "cost": 200})
    for img, c1, c0 in (([4, 4], (0, 0), (2, 2)), ([4, 4], (2, 2), (0, 0)), ([3, 4], (1, 2), (1, 0))) + ((([5, 4], (1, 2), (3, 2)),) if full else ()):
        for crop in (True, False):
            if not crop and not (full and img == [4, 4] and c1 == (2, 2)):
                continue
            out.append({"id": "history:%s:calib=%s:after=%s:crop=%s" % (img, list(c1), list(c0), crop), "h": "history", "img": img, "calib": list(c1),
                        "calib_before": list(c0), "crop": crop, "seed": 0, "max_paths": 4000, "cost": 3 * img[0] * img[1]})
    return out
