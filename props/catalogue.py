"""Operator catalogue shared by C01-C04 (and C16): JSON-able operator specs -> real sigpy Linops whose
array/scalar parameters are symbolic (value factory V), plus the configuration universe."""
import itertools
import random
from math import ceil

import numpy as np

from symsig.algebra import required_N


def _idx(spec):
    out = []
    for s in spec:
        if isinstance(s, list):
            out.append(slice(*s))
        else:
            out.append(s)
    return tuple(out) if len(out) != 1 else out[0]


def _scalar(kind, V, name):
    if kind == "real":
        return V.scalar(name)
    if kind == "cplx":
        return V.scalar(name, True)
    if kind == "one":
        return 1
    if kind == "int":
        return 3
    if kind == "float":
        return -0.5
    if kind == "cfloat":
        return 0.5 - 2j
    raise ValueError(kind)


def _coord(V, c):
    return np.array(c, dtype=np.float64)


def build(spec, V, pfx="p", params=None):
    """returns the real sigpy Linop for spec; params collects (name, array) operator parameter arrays"""
    import sigpy as sp
    from sigpy import linop as L
    if params is None:
        params = []
    op = spec[0]
    a = spec[1:]

    def arr(name, shape, cplx=True):
        m = V.array(pfx + name, shape, cplx)
        params.append((pfx + name, m))
        return m

    def kid(i, s):
        return build(s, V, pfx + str(i), params)

    if op == "Identity":
        return L.Identity(a[0])
    if op == "Reshape":
        return L.Reshape(a[0], a[1])
    if op == "Transpose":
        return L.Transpose(a[0], axes=a[1])
    if op == "Flip":
        return L.Flip(a[0], axes=a[1])
    if op == "Circshift":
        return L.Circshift(a[0], a[1], axes=a[2])
    if op == "Resize":
        return L.Resize(a[0], a[1], ishift=a[2], oshift=a[3])
    if op == "Downsample":
        return L.Downsample(a[0], a[1], shift=a[2])
    if op == "Upsample":
        return L.Upsample(a[0], a[1], shift=a[2])
    if op == "Sum":
        return L.Sum(a[0], a[1])
    if op == "Tile":
        return L.Tile(a[0], a[1])
    if op == "Slice":
        return L.Slice(a[0], _idx(a[1]))
    if op == "Embed":
        return L.Embed(a[0], _idx(a[1]))
    if op == "ArrayToBlocks":
        return L.ArrayToBlocks(a[0], a[1], a[2])
    if op == "BlocksToArray":
        return L.BlocksToArray(a[0], a[1], a[2])
    if op == "FiniteDifference":
        return L.FiniteDifference(a[0], axes=a[1])
    if op == "Multiply":
        m = a[1]
        mult = arr("m", m) if isinstance(m, list) else _scalar(m, V, pfx + "a")
        return L.Multiply(a[0], mult, conj=a[2])
    if op == "MatMul":
        return L.MatMul(a[0], arr("m", a[1]), adjoint=a[2])
    if op == "RightMatMul":
        return L.RightMatMul(a[0], arr("m", a[1]), adjoint=a[2])
    if op == "FFT":
        return L.FFT(a[0], axes=a[1], center=a[2])
    if op == "IFFT":
        return L.IFFT(a[0], axes=a[1], center=a[2])
    if op == "Interpolate":
        return L.Interpolate(a[0], _coord(V, a[1]), kernel=a[2], width=_w(a[3]), param=_w(a[4]))
    if op == "Gridding":
        return L.Gridding(a[0], _coord(V, a[1]), kernel=a[2], width=_w(a[3]), param=_w(a[4]))
    if op == "NUFFT":
        return L.NUFFT(a[0], _coord(V, a[1]), oversamp=a[2], width=a[3])
    if op == "NUFFTAdjoint":
        return L.NUFFTAdjoint(a[0], _coord(V, a[1]), oversamp=a[2], width=a[3])
    if op in ("ConvolveData", "ConvolveDataAdjoint"):
        return getattr(L, op)(a[0], arr("f", a[1]), mode=a[2], strides=a[3], multi_channel=a[4])
    if op in ("ConvolveFilter", "ConvolveFilterAdjoint"):
        return getattr(L, op)(a[0], arr("d", a[1]), mode=a[2], strides=a[3], multi_channel=a[4])
    if op == "Sense":
        import sigpy.mri.linop as ML
        img, nc, coord, wts, batch = a
        mps = arr("mps", [nc] + list(img))
        kw = {}
        if coord is not None:
            kw["coord"] = _coord(V, coord)
            kshape = list(np.shape(coord)[:-1])
        else:
            kshape = list(img)
        if wts:
            # weights = s^2 with s >= 0 registered as the square root (no auxiliary variable)
            w = arr("w", kshape if wts == "k" else [nc] + kshape, False)
            w2 = w * w
            if V.symbolic:
                from symsig import scalar as _S
                for i in np.ndindex(*w.shape):
                    _S.cur().register_sqrt(w2[i], w[i])
            else:
                w = np.abs(w)
            params.append((pfx + "w2", w2))
            kw["weights"] = w2
        if batch is not None:
            kw["coil_batch_size"] = batch
        return ML.Sense(mps, **kw)
    if op == "ConvSense":
        import sigpy.mri.linop as ML
        img_ker, nc, kshape, coord, mode = a
        if mode == "img":   # input is the image kernel, parameter is the maps kernel
            mps_ker = arr("mk", [nc] + list(kshape))
            return ML.ConvSense(img_ker, mps_ker, coord=None if coord is None else _coord(V, coord))
        raise ValueError(mode)
    if op == "ConvImage":
        import sigpy.mri.linop as ML
        mps_ker_shape, img_ker_shape, coord = a
        img_ker = arr("ik", img_ker_shape)
        return ML.ConvImage(mps_ker_shape, img_ker, coord=None if coord is None else _coord(V, coord))
    # ---- algebra
    if op == "Compose":
        return L.Compose([kid(i, s) for i, s in enumerate(a[0])])
    if op == "Mul":      # operator overload A * B * ...
        ops = [kid(i, s) for i, s in enumerate(a[0])]
        r = ops[0]
        for o in ops[1:]:
            r = r * o
        return r
    if op == "Add":
        ops = [kid(i, s) for i, s in enumerate(a[0])]
        r = ops[0]
        for o in ops[1:]:
            r = r + o
        return r
    if op == "AddC":
        return L.Add([kid(i, s) for i, s in enumerate(a[0])])
    if op == "Sub":
        return kid(0, a[0]) - kid(1, a[1])
    if op == "Neg":
        return -kid(0, a[0])
    if op == "ScaleL":
        return _scalar(a[0], V, pfx + "a") * kid(0, a[1])
    if op == "ScaleR":
        return kid(0, a[0]) * _scalar(a[1], V, pfx + "a")
    if op == "Hstack":
        return L.Hstack([kid(i, s) for i, s in enumerate(a[0])], axis=a[1])
    if op == "Vstack":
        return L.Vstack([kid(i, s) for i, s in enumerate(a[0])], axis=a[1])
    if op == "Diag":
        return L.Diag([kid(i, s) for i, s in enumerate(a[0])], oaxis=a[1], iaxis=a[2])
    if op == "Conj":
        return L.Conj(kid(0, a[0]))
    if op == "H":
        return kid(0, a[0]).H
    if op == "N":
        return kid(0, a[0]).N
    raise ValueError("unknown op %r" % (op,))


def _w(x):
    return tuple(x) if isinstance(x, list) else x


TREE_OPS = {"Compose", "Mul", "Add", "AddC", "Sub", "Neg", "ScaleL", "ScaleR", "Hstack", "Vstack", "Diag", "Conj", "H", "N"}


def kids_of(spec):
    op = spec[0]
    if op in ("Compose", "Mul", "Add", "AddC", "Hstack", "Vstack", "Diag"):
        return list(spec[1])
    if op == "Sub":
        return [spec[1], spec[2]]
    if op in ("Neg", "Conj", "H", "N", "ScaleR"):
        return [spec[1]]
    if op == "ScaleL":
        return [spec[2]]
    return []


def fft_lengths(spec):
    """(lengths needing n-th roots, lengths needing sqrt(n)) of every DFT inside the spec"""
    op = spec[0]
    roots, sq = [], []
    if op in ("FFT", "IFFT"):
        shape, axes = spec[1], spec[2]
        axes = range(len(shape)) if axes is None else axes
        ls = [shape[a] for a in axes]
        roots += ls
        sq += ls
    elif op in ("NUFFT", "NUFFTAdjoint"):
        shape, coord, osf = spec[1], spec[2], spec[3]
        nd = np.shape(coord)[-1]
        roots += [ceil(osf * n) for n in shape[-nd:]]
    elif op == "Sense":
        img, nc, coord = spec[1], spec[2], spec[3]
        if coord is None:
            roots += list(img)
            sq += list(img)
        else:
            nd = np.shape(coord)[-1]
            roots += [ceil(1.25 * n) for n in img[-nd:]]
    elif op in ("ConvSense", "ConvImage"):
        raise NotImplementedError
    for k in kids_of(spec):
        r, s = fft_lengths(k)
        roots += r
        sq += s
    return roots, sq


def has_float_pair(spec):
    """True if forward and adjoint go through different float constants (NUFFT scaling)"""
    if spec[0] in ("NUFFT", "NUFFTAdjoint"):
        return True
    if spec[0] == "Sense" and spec[3] is not None:
        return True
    return any(has_float_pair(k) for k in kids_of(spec))


def field_for(spec):
    roots, sq = fft_lengths(spec)
    N = required_N(roots, ortho=False)
    N2 = required_N(sq, ortho=True)
    from math import gcd
    return N * N2 // gcd(N, N2)


def sid(spec):
    """compact readable id"""
    def f(x):
        if isinstance(x, list):
            if x and isinstance(x[0], str) and (x[0] in TREE_OPS or x[0][0].isupper()):
                return sid(x)
            return "[" + ",".join(f(v) for v in x) + "]"
        return str(x)
    return "%s(%s)" % (spec[0], ",".join(f(v) for v in spec[1:]))


# --------------------------------------------------------------------------- leaf universe

COORD1 = {
    "frac": [[0.3], [-1.6], [1.25]],
    "int": [[0.0], [1.0], [-2.0]],
    "half": [[0.5], [-1.5]],
    "far": [[7.3], [-9.5]],
    "dup": [[0.25], [0.25]],
}
COORD2 = {
    "frac": [[0.3, -0.7], [1.2, 0.4]],
    "tie": [[0.5, -1.0], [-0.5, 1.5]],
    "far": [[5.25, -6.5]],
    "dup": [[0.25, 0.5], [0.25, 0.5]],
}
COORD3 = {"frac": [[0.3, -0.7, 0.2]], "tie": [[0.5, 1.0, -0.5]]}


def leaves(tier):
    """list of leaf specs (quick subset of thorough)"""
    q = []
    t = []
    # structure
    q += [["Identity", [2, 3]], ["Reshape", [3, 2], [2, 3]], ["Reshape", [6], [1, 2, 3]]]
    t += [["Identity", [1]], ["Reshape", [2, 1, 3], [6]]]
    q += [["Transpose", [2, 3], None], ["Transpose", [2, 3, 2], [2, 0, 1]], ["Transpose", [2, 3, 2], [1, 2, 0]]]
    t += [["Transpose", [2, 3, 4], list(p)] for p in itertools.permutations(range(3))]
    t += [["Transpose", [3], None], ["Transpose", [2, 3, 4], None]]
    q += [["Flip", [3, 2], None], ["Flip", [3, 2], [-1]], ["Flip", [2, 3, 2], [0, -1]]]
    t += [["Flip", [3, 4], [0]], ["Flip", [4], [0]], ["Flip", [2, 3, 2], [-2]], ["Flip", [1, 3], [0, 1]]]
    q += [["Circshift", [3, 2], [1, -1], None], ["Circshift", [4], [5], [-1]], ["Circshift", [2, 3], [2], [1]]]
    for n in (3, 4):
        t += [["Circshift", [n], [s], [0]] for s in range(-n - 1, n + 2)]
    t += [["Circshift", [2, 3], [1], [-2]], ["Circshift", [2, 3, 2], [1, 2], [0, -1]]]
    q += [["Resize", [5, 2], [3, 4], None, None], ["Resize", [2], [5], None, None], ["Resize", [4, 3], [3], None, None],
          ["Resize", [3, 3], [5, 2], [1, 0], [0, 1]], ["Resize", [4], [3], None, [1]], ["Resize", [2, 3], [1, 2, 3], None, None]]
    for i in range(1, 6):
        for o in range(1, 6):
            if i != o:
                t.append(["Resize", [o], [i], None, None])
    t += [["Resize", [3, 5], [4, 2], None, None], ["Resize", [2, 3, 1], [3, 2, 2], None, None],
          ["Resize", [5], [3], [0], [2]], ["Resize", [3], [5], [2], [0]], ["Resize", [4, 4], [2, 2], [0, 0], [1, 2]],
          ["Resize", [2, 2], [4, 4], [1, 2], [0, 0]], ["Resize", [5], [4], [1], None], ["Resize", [2, 4], [4], None, None]]
    q += [["Downsample", [5], [2], None], ["Downsample", [4, 3], [2, 3], [1, 0]], ["Upsample", [5], [2], [1]],
          ["Upsample", [4, 3], [3, 2], None]]
    for n in (4, 5):
        for f in (1, 2, 3):
            for s in range(0, f):
                t.append(["Downsample", [n], [f], [s]])
                t.append(["Upsample", [n], [f], [s]])
    t += [["Downsample", [3, 4], [1, 2], [0, 1]], ["Upsample", [2, 3, 4], [1, 2, 3], [0, 1, 2]]]
    q += [["Sum", [2, 3], [0]], ["Sum", [2, 3, 2], [-1, 0]], ["Tile", [2, 3], [1]], ["Tile", [2, 3, 2], [0, -1]]]
    t += [["Sum", [2, 3], [0, 1]], ["Sum", [2, 3, 2], [0, 1]], ["Sum", [2, 3, 2], [1]], ["Sum", [2, 3], [-2]], ["Tile", [3, 2], [-2]],
          ["Tile", [2, 2, 3], [1]], ["Tile", [2, 3], [0, 1]], ["Tile", [2, 3, 2], [0, 1]], ["Sum", [3, 1], [1]], ["Sum", [2, 3, 2], [2, -3]]]
    # (not in the universe: a repeated axis such as Sum([2,3],[1,-1]) - NumPy rejects it on apply)
    q += [["Slice", [5], [[1, 4, 2]]], ["Slice", [3, 4], [1, [None, None, -1]]], ["Embed", [5], [[1, 4, 2]]],
          ["Embed", [3, 4], [[0, 2, None], [3, None, -2]]]]
    t += [["Slice", [4, 3], [[None, None, 2]]], ["Slice", [2, 3, 2], [[None, None, None], 1]], ["Embed", [4, 3], [2]],
          ["Slice", [5], [[-2, None, None]]], ["Embed", [2, 5], [[None, None, None], [-1, None, -3]]],
          ["Slice", [6], [[4, 0, -2]]], ["Embed", [3, 3], [[1, None, None], [None, 2, None]]]]
    q += [["ArrayToBlocks", [5], [2], [1]], ["ArrayToBlocks", [5], [2], [2]], ["ArrayToBlocks", [6], [2], [3]],
          ["ArrayToBlocks", [2, 4, 3], [2, 2], [2, 1]], ["BlocksToArray", [5], [3], [1]], ["BlocksToArray", [4, 4], [2, 2], [2, 2]]]
    # non-overlapping blocks that do not tile the array: an uncovered tail of two or more samples at the END of the axis
    q += [["ArrayToBlocks", [5], [3], [3]], ["BlocksToArray", [6], [4], [4]], ["ArrayToBlocks", [8], [3], [3]], ["BlocksToArray", [6, 5], [4, 2], [4, 2]]]
    for n in (4, 5):
        for b in (1, 2, 3):
            for s in (1, 2, 3, 4):
                t.append(["ArrayToBlocks", [n], [b], [s]])
                t.append(["BlocksToArray", [n], [b], [s]])
    t += [["ArrayToBlocks", [4, 5], [2, 3], [1, 2]], ["BlocksToArray", [2, 3, 4], [2, 2], [1, 3]],
          ["ArrayToBlocks", [3, 3, 3], [2, 2, 2], [1, 1, 1]], ["BlocksToArray", [3, 2, 3], [1, 2, 2], [2, 1, 1]]]
    # (not in the universe: 4 block dimensions - sigpy documents D <= 3 and raises)
    q += [["FiniteDifference", [2, 3], None], ["FiniteDifference", [4], [0]]]
    t += [["FiniteDifference", [2, 3, 2], [-1, 0]], ["FiniteDifference", [3, 2], [1]], ["FiniteDifference", [1, 3], None]]
    # arithmetic with symbolic parameters
    q += [["Multiply", [2, 3], [2, 3], False], ["Multiply", [2, 3], [3], False], ["Multiply", [2, 3], [2, 1], True],
          ["Multiply", [3], [2, 3], False], ["Multiply", [2, 1], [1, 3], False], ["Multiply", [2, 3], "cplx", False],
          ["Multiply", [2, 3], "cplx", True], ["Multiply", [2, 2], "one", False], ["Multiply", [1, 3], [2, 1, 1], False],
          ["Multiply", [1], [2], False], ["Multiply", [1, 1], [2, 2], True], ["Sum", [2, 3], [1, 0]]]
    t += [["Multiply", [2, 3], [1], False], ["Multiply", [2, 1, 3], [2, 1], False], ["Multiply", [1], [2, 2], True],
          ["Multiply", [2, 3], "real", False], ["Multiply", [2], "cfloat", True], ["Multiply", [2], "int", False],
          ["Multiply", [2, 3], "float", False], ["Multiply", [2, 3, 2], [3, 1], True], ["Multiply", [3, 1], [1, 1, 2], False],
          ["Multiply", [1, 1], [1], False], ["Multiply", [2, 2], [1, 1, 2], True]]
    q += [["MatMul", [3, 2], [4, 3], False], ["MatMul", [2, 3, 2], [2, 3], False], ["MatMul", [3, 1], [2, 3, 2], True],
          ["RightMatMul", [2, 3], [3, 2], False], ["RightMatMul", [2, 2, 3], [2, 3], True], ["MatMul", [2, 1], [3, 1, 2], False],
          ["MatMul", [2, 2], [2, 2], True], ["MatMul", [2, 1], [2, 3], True], ["RightMatMul", [3, 2], [3, 2], True], ["MatMul", [2, 2], [3, 2], False]]
    t += [ ["MatMul", [1, 3, 2], [2, 2, 3], False], ["MatMul", [2, 3, 1], [1, 2, 3], False],
          ["RightMatMul", [1, 2], [3, 2, 2], False], ["RightMatMul", [2, 1, 3], [1, 3, 1], False],
          ["MatMul", [2, 1, 2, 1], [3, 1, 2], False], ["RightMatMul", [1, 2], [2, 2, 2, 2], True]]
    # transforms
    q += [["FFT", [3], None, True], ["FFT", [4], None, True], ["FFT", [2, 3], [-1], True], ["IFFT", [3, 2], None, True],
          ["FFT", [3], None, False], ["IFFT", [4], [0], False], ["FFT", [5], None, True], ["IFFT", [2, 3], [0, 1], True]]
    t += [["FFT", [6], None, True], ["IFFT", [5], None, True], ["FFT", [2, 3, 2], [0, -1], True], ["IFFT", [4, 3], [1], False],
          ["FFT", [1, 4], None, True], ["FFT", [3, 3], [1, 0], True], ["IFFT", [2, 2, 3], [-1, -3], True], ["FFT", [4, 2], None, False]]
    for kern, prm in (("spline", 0), ("spline", 1), ("spline", 2), ("kaiser_bessel", 2.34)):
        q.append(["Interpolate", [4], COORD1["frac"], kern, 2, prm])
        q.append(["Gridding", [2, 3], COORD1["half"], kern, 3, prm])
        for cname, c in COORD1.items():
            for w in (1, 1.5, 2, 3, 4):
                t.append(["Interpolate", [3], c, kern, w, prm])
        t.append(["Gridding", [4], COORD1["far"], kern, 2.5, prm])
        t.append(["Gridding", [1], COORD1["frac"], kern, 2, prm])
        t.append(["Interpolate", [2, 3, 3], COORD2["frac"], kern, [2, 1.5], prm])
        t.append(["Gridding", [3, 2], COORD2["tie"], kern, 2, prm])
        t.append(["Interpolate", [2, 3], COORD2["far"], kern, [3, 2], prm])
        t.append(["Gridding", [2, 2, 3], COORD2["dup"], kern, 2, prm])
        t.append(["Interpolate", [2, 2, 2], COORD3["frac"], kern, 2, prm])
        t.append(["Gridding", [2, 2, 3], COORD3["tie"], kern, [2, 1, 3], prm])
    q += [["Interpolate", [3, 4], [[0.6, 0.2], [-1.25, 0.5], [1.75, -0.3]], "kaiser_bessel", [3, 2], 2.34],
          ["Gridding", [4, 3], [[0.6, 0.2], [-1.25, 0.5], [1.75, -0.3]], "spline", [1.5, 3], 1],
          ["Interpolate", [2, 3, 3], [[0.6, 1.75, -0.7], [-0.3, 0.55, 1.6]], "spline", [3, 1.5, 3], 2],
          ["NUFFT", [3, 4], [[0.6, 0.2], [-1.25, 0.5]], 2, 3]]
    q += [["Interpolate", [3, 3], COORD2["tie"], "spline", [2, 3], [1, 2]], ["Gridding", [2, 3, 2], COORD2["frac"], "spline", 2, 1]]
    q += [["NUFFT", [4], COORD1["frac"], 1.25, 4], ["NUFFTAdjoint", [3], COORD1["half"], 2, 3], ["NUFFT", [2, 3], COORD2["frac"], 1.25, 4]]
    t += [["NUFFT", [3], COORD1["far"], 1.25, 3], ["NUFFTAdjoint", [4], COORD1["int"], 1.25, 4], ["NUFFT", [2, 4], COORD1["dup"], 2, 4],
          ["NUFFTAdjoint", [2, 2], COORD2["tie"], 2, 3], ["NUFFT", [2, 2, 3], COORD2["far"], 1.25, 4], ["NUFFT", [5], COORD1["frac"], 1.5, 4]]
    q += [["ConvolveData", [4], [2], "full", None, False], ["ConvolveData", [2, 4], [1, 2, 3], "full", None, True],
          ["ConvolveData", [3, 4], [2, 2], "valid", [2, 1], False], ["ConvolveFilter", [2], [4], "valid", None, False],
          ["ConvolveFilter", [2, 1, 2], [3, 1, 3], "full", [2], True], ["ConvolveDataAdjoint", [4], [3], "full", [2], False],
          ["ConvolveFilterAdjoint", [2, 2], [3, 3], "valid", None, False], ["ConvolveData", [2], [3], "valid", [2], False],
          ["ConvolveData", [2, 2], [3, 3], "valid", None, False], ["ConvolveFilter", [3, 3], [2, 2], "valid", None, False],
          ["ConvolveFilter", [2, 2], [2, 3, 3], "full", None, False], ["ConvolveData", [2, 2, 3], [2, 2], "valid", [1, 2], False]]
    for m in (1, 2, 3, 4):
        for n in (1, 2, 3, 4):
            for mode in ("full", "valid"):
                for s in (1, 2, 3):
                    t.append(["ConvolveData", [m], [n], mode, [s], False])
                    t.append(["ConvolveFilter", [n], [m], mode, [s], False])
    t += [["ConvolveData", [2, 2, 3], [2, 2, 2, 2], "full", None, True], ["ConvolveData", [2, 3, 3], [2, 2], "valid", [1, 2], False],
          ["ConvolveFilter", [1, 2, 2, 2], [2, 2, 3, 3], "valid", None, True], ["ConvolveData", [2, 2, 2], [2, 2, 2], "full", [2, 1, 2], False],
          ["ConvolveDataAdjoint", [2, 3], [3, 2, 2], "full", None, True], ["ConvolveFilterAdjoint", [2, 1, 2], [2, 1, 3], "valid", None, True],
          ["ConvolveData", [3, 3], [2, 2], "valid", None, False], ["ConvolveFilter", [3, 3], [2, 2], "valid", None, False]]
    # factories
    q += [["Sense", [2, 2], 2, None, False, None], ["Sense", [2, 3], 2, None, "k", 1], ["Sense", [2, 2], 2, COORD2["frac"], False, None]]
    t += [["Sense", [3, 3], 2, None, "c", None], ["Sense", [2, 2], 3, None, False, 2], ["Sense", [2, 2, 2], 2, None, False, 1],
          ["Sense", [2, 3], 2, COORD2["tie"], "k", 1], ["Sense", [2, 2], 3, COORD2["frac"], "c", None], ["Sense", [2, 2], 3, COORD2["frac"], "k", 2]]
    # (not in the universe: per-coil weights together with coil batching - weights are documented as k-space weights, one coil's shape)
    if tier == "quick":
        return q + t[::3]      # the core list plus a fixed third of the thorough sweep
    return q + t


def io_shapes(spec):
    """(ishape, oshape) via a throw-away concrete build"""
    from symsig.oracle import FloatValues
    A = build(spec, FloatValues({}), "p")
    return list(A.ishape), list(A.oshape)
