"""C14 - LinearLeastSquares returns the documented minimiser whatever the solver."""
import itertools
from fractions import Fraction

import numpy as np

from symsig import oracle as O
from symsig import scalar as S
from symsig.scalar import B

PROPERTY = "C14"
FUNCTIONS = ["sigpy.app.LinearLeastSquares.__init__/_get_alg/_get_ConjugateGradient/_get_GradientMethod/_get_PrimalDualHybridGradient/_get_ADMM",
             "sigpy.app.MaxEig", "sigpy.alg.{ConjugateGradient,GradientMethod,PrimalDualHybridGradient,ADMM}.update",
             "sigpy.prox.{L1Reg,L2Reg,BoxConstraint,Conj,Stack,NoOp}", "sigpy.linop.{MatMul,Vstack,Identity,Add,Compose,Multiply}"]
BOUNDS = {"quick": "A ARBITRARY (every entry a solver variable) 2x2 / 3x2 with arbitrary lamda > 0 for CG, GradientMethod (all prox, with/without acceleration), PDHG and 1x1 ADMM; "
                   "G = Identity / Reshape (forward call returns its argument / a view) for ADMM and PDHG; further A in {2x2 dense, 3x2, 1x1 'identity-like'} as MatMul (and Identity), G in {None, 2x2 dense, finite difference}, proxg in {None, l1, l2, box}, "
                   "lamda in {0, 1/2, 2}, z in {None, symbolic}, solver in {CG, GradientMethod, PDHG, ADMM, None}, x given / None, step arguments given / defaulted",
          "thorough": "full cross product"}
OUTSIDE = ["that the iteration reaches its fixed point within max_iter (C12/C13 lemmas + ADMM theory)", "inner-CG truncation in ADMM for n > max_cg_iter",
           "complex data (real matrices and vectors here)",
           "arbitrary (symbolic) A beyond 2x2 / 3x2 (CG, GradientMethod, PDHG) and 1x1 / 2x1 (ADMM); PDHG with symbolic 3x2 A, l1 and lamda = 0 (z3 unknown after 8 min)"]
ASSUMPTIONS = ["PDHG harness: sigpy.app.MaxEig is replaced by a stub returning an arbitrary positive number (symbolic step sizes)",
               "A, G concrete small matrices; y, z, the solver state (x, dual variables) and prox parameters symbolic", "regularisation parameters > 0",
               "MaxEig (power method with a random start) runs numerically on the concrete operator; only positivity of the resulting step is used"]
EXPLANATION = ("C14: for the Alg object constructed by the real LinearLeastSquares for each option combination, the fixed points of one alg.update() are "
               "exactly the KKT points of the DOCUMENTED objective 0.5||Ax-y||^2 + g(Gx) + lamda/2||x-z||^2 (both directions, multiplier read off the "
               "solver's dual state); CG: b_sys - A_sys x = -grad objective(x) identically; unsupported combinations raise; inputs y, z are not modified.")

AM = {"small2": [[0.25, 0], [0.125, 0.25]], "small11": [[0.125]], "dense2": [[2, 1], [0, 1]], "tall32": [[1, 0], [1, 1], [0, 2]], "one": [[1]], "id2": "identity", "two11": [[2]], "tall21": [[1], [2]]}
GM_ = {"ident": "ident", "reshape": "reshape", "dense2": [[1, -1], [1, 2]], "fd": "fd", "wide": [[1, 2]], "tall": [[1, 0], [0, 1], [1, 1]], "g11": [[3]], "g21": [[1], [-2]]}


def _pos(V, name):
    v = V.scalar(name)
    V.assume(v > 0, name + " > 0")
    return v


class Problem:
    def __init__(self, cfg, V):
        import sigpy as sp
        from sigpy import prox
        self.V = V
        a = AM.get(cfg["A"])
        if cfg["A"].startswith("sym"):
            # ARBITRARY real matrix: every entry is a solver variable ("sym22" = 2x2, "sym32" = 3x2, "sym11" = 1x1, "sym21" = 2x1)
            m_, n = int(cfg["A"][3]), int(cfg["A"][4])
            self.Amat = np.empty((m_, n), dtype=object if V.symbolic else np.float64)
            for i in range(m_):
                for j in range(n):
                    self.Amat[i, j] = V.scalar("a%d%d" % (i, j))
            self.A = sp.linop.MatMul([n, 1], self.Amat)
        elif a == "identity":
            n = 2
            self.Amat = np.eye(2)
            self.A = sp.linop.Identity([n, 1])
        else:
            self.Amat = np.array(a, dtype=np.float64)
            n = self.Amat.shape[1]
            self.A = sp.linop.MatMul([n, 1], self.Amat)
        self.n = n
        self.m = self.Amat.shape[0]
        self.y = V.array("y", [self.m, 1], False)
        self.lam = _pos(V, "lamda") if cfg["lam"] == "sym" else {"0": 0, "half": 0.5, "two": 2}[cfg["lam"]]
        self.z = V.array("z", [n, 1], False) if cfg["z"] else None
        g = cfg["G"]
        if g is None:
            self.G, self.Gmat, self.gshape = None, np.eye(n), [n, 1]
        elif GM_[g] in ("ident", "reshape"):
            # operators whose forward call hands back its argument itself / a view of it
            self.G = sp.linop.Identity([n, 1]) if g == "ident" else sp.linop.Reshape([n, 1], [n, 1])
            self.Gmat = np.eye(n)
            self.gshape = [n, 1]
        elif GM_[g] == "fd":
            self.G = sp.linop.FiniteDifference([n, 1], axes=[0])
            self.Gmat = np.eye(n) - np.roll(np.eye(n), 1, axis=0)
            self.gshape = list(self.G.oshape)
        else:
            self.Gmat = np.array(GM_[g], dtype=np.float64)
            self.G = sp.linop.MatMul([n, 1], self.Gmat)
            self.gshape = list(self.G.oshape)
        self.k = self.Gmat.shape[0]
        self.gk = cfg["g"]
        if self.gk is None:
            self.proxg = None
        elif self.gk == "l1":
            self.mu = _pos(V, "mu")
            self.proxg = prox.L1Reg(self.gshape, self.mu)
        elif self.gk == "l2":
            self.mu = _pos(V, "mu")
            self.proxg = prox.L2Reg(self.gshape, self.mu)
        elif self.gk == "box":
            self.lo, self.up = V.scalar("lo"), V.scalar("up")
            V.assume(self.lo < self.up, "lower < upper")
            self.proxg = prox.BoxConstraint(self.gshape, self.lo, self.up)

    def grad_smooth(self, x):
        """A^T (A x - y) + lam (x - z), x column [n,1]"""
        r = self.Amat.T @ (self.Amat @ x - self.y)
        if self.lam:
            r = r + self.lam * (x - (self.z if self.z is not None else 0))
        return r

    def in_subdiff(self, w, gx):
        """w in dg(gx) (flat lists)"""
        conds = []
        for wi, gi in zip(w, gx):
            if self.gk is None:
                conds.append(O.eq(wi, 0))
            elif self.gk == "l2":
                conds.append(O.eq(wi, self.mu * gi))
            elif self.gk == "l1":
                conds.append(B.and_(B.implies(O.gt(gi, 0), O.eq(wi, self.mu)), B.implies(O.lt(gi, 0), O.eq(wi, -self.mu)),
                                    B.implies(O.eq(gi, 0), B.and_(O.le(wi, self.mu), O.ge(wi, -self.mu)))))
            elif self.gk == "box":
                inside = B.and_(O.gt(gi, self.lo), O.lt(gi, self.up))
                conds.append(B.and_(O.ge(gi, self.lo), O.le(gi, self.up), B.implies(inside, O.eq(wi, 0)),
                                    B.implies(O.eq(gi, self.lo), O.le(wi, 0)), B.implies(O.eq(gi, self.up), O.ge(wi, 0))))
        return O.all_(conds)

    def kkt(self, x, w):
        """stationarity + subgradient condition with multiplier w (flat, length k)"""
        wcol = np.array(list(w), dtype=object if self.V.symbolic else np.float64).reshape(self.k, 1)
        stat = self.grad_smooth(x) + self.Gmat.T @ wcol
        gx = list(np.ravel(self.Gmat @ x))
        return B.and_(O.eq(stat, np.zeros((self.n, 1))), self.in_subdiff(list(w), gx))

    def app(self, cfg, x0, **kw):
        import sigpy as sp
        args = dict(x=x0, proxg=self.proxg, lamda=self.lam, G=self.G, z=self.z, solver=cfg["solver"], show_pbar=False, max_iter=5)
        args.update(kw)
        return sp.app.LinearLeastSquares(self.A, self.y, **args)


def _unchanged(P, y0, z0):
    c = [O.eq(P.y, y0)]
    if P.z is not None:
        c.append(O.eq(P.z, z0))
    return O.all_(c)


def h_cg(cfg, V):
    P = Problem(cfg, V)
    y0 = P.y.copy()
    z0 = P.z.copy() if P.z is not None else None
    x0 = V.array("x0", [P.n, 1], False) if cfg["x"] else None
    kw = {}
    if cfg.get("P"):
        import sigpy as sp
        kw["P"] = sp.linop.Multiply([P.n, 1], 0.5)
    app = P.app(cfg, x0, **kw)
    xs = V.array("xs", [P.n, 1], False)
    al = app.alg
    obl = [("solver_is_cg", O.const(type(al).__name__ == "ConjugateGradient")),
           ("system_is_minus_gradient", O.eq(al.b - al.A(xs), -P.grad_smooth(xs))),
           ("solution_array", O.const(al.x is app.x and (x0 is None or app.x is x0))),
           ("inputs_unchanged", _unchanged(P, y0, z0))]
    return obl


def h_gm(cfg, V):
    P = Problem(cfg, V)
    y0 = P.y.copy()
    z0 = P.z.copy() if P.z is not None else None
    x0 = V.array("x0", [P.n, 1], False) if cfg["x"] else None
    kw = {"accelerate": cfg["acc"]}
    if cfg["alpha"]:
        kw["alpha"] = _pos(V, "alpha")
    app = P.app(cfg, x0, **kw)
    al = app.alg
    xs = V.array("xs", [P.n, 1], False)
    obl = [("solver_is_gradient_method", O.const(type(al).__name__ == "GradientMethod")),
           ("gradf_is_gradient_of_smooth_part", O.eq(al.gradf(xs), P.grad_smooth(xs))),
           ("proxg_passed_through", O.const(al.proxg is P.proxg))]
    if cfg["alpha"]:
        obl.append(("alpha_passed_through", O.eq(al.alpha, kw["alpha"])))
    else:
        L = float(np.linalg.eigvalsh(P.Amat.T @ P.Amat + P.lam * np.eye(P.n)).max())
        a = float(al.alpha)
        # the power iteration approaches L from below; for the small-norm operators lamda*I clusters the spectrum (ratio 0.89), so 30
        # iterations from a random start may still be 12 % low: the estimate is never below the smallest eigenvalue, which bounds
        # a*L by 1.12 there - 1.5 is still inside the convergence threshold 2/L of the proximal gradient method
        bound = 1.5 if cfg["A"].startswith("small") else 1.05
        obl.append(("default_alpha_is_1_over_L_within_power_method_tolerance", O.const(0 < a and a * L <= bound)))
    # fixed points of one update <=> KKT (G = identity, multiplier w = -grad smooth)
    import sigpy as sp
    x = V.array("x", [P.n, 1], False)
    sp.backend.copyto(al.x, x)
    if cfg["acc"]:
        sp.backend.copyto(al.z, x)
    al.update()
    fixed = O.eq(al.x, x)
    w = list(np.ravel(-P.grad_smooth(x)))
    if P.gk is None:
        k = O.eq(P.grad_smooth(x), np.zeros((P.n, 1)))
    else:
        k = P.in_subdiff(w, list(np.ravel(x)))
    obl.append(("fixed_point_implies_kkt", B.implies(fixed, k)))
    obl.append(("kkt_implies_fixed_point", B.implies(k, fixed)))
    obl.append(("inputs_unchanged", _unchanged(P, y0, z0)))
    return obl


def h_pdhg(cfg, V):
    import sigpy as sp
    P = Problem(cfg, V)
    y0 = P.y.copy()
    z0 = P.z.copy() if P.z is not None else None
    x0 = V.array("x0", [P.n, 1], False) if cfg["x"] else None
    kw = {}
    if cfg["steps"] in ("tau", "both"):
        kw["tau"] = _pos(V, "tau")
    if cfg["steps"] in ("sigma", "both"):
        kw["sigma"] = _pos(V, "sigma")
    # environment stub: MaxEig (power iteration from a random start) returns an arbitrary positive number - its documented
    # contract as far as fixed points are concerned; a concrete float step would bring float rounding of 1 + lamda*tau into play
    import sigpy.app as sapp
    orig_me = sapp.MaxEig
    cnt = [0]

    seen_ops = []

    class _MaxEigStub:
        def __init__(self, A, *a, **k):
            seen_ops.append(A)

        def run(self):
            cnt[0] += 1
            vals.append(_pos(V, "maxeig%d" % cnt[0]))
            return vals[-1]
    vals = []
    sapp.MaxEig = _MaxEigStub
    try:
        app = P.app(cfg, x0, **kw)
    finally:
        sapp.MaxEig = orig_me
    al = app.alg
    obl = [("solver_is_pdhg", O.const(type(al).__name__ == "PrimalDualHybridGradient"))]
    # default step sizes: the operator whose largest eigenvalue defines them must be K^H S K (tau defaulted) or K T K^H (sigma defaulted)
    # for the FULL stacked operator K = [A; G] - that is what makes tau*sigma*||K||^2 <= 1
    Kmat = P.Amat if P.G is None else np.vstack([P.Amat, P.Gmat])
    if cfg["steps"] == "both":
        obl.append(("no_power_iteration_when_both_steps_given", O.const(len(seen_ops) == 0)))
    else:
        obl.append(("one_power_iteration_for_the_default_step", O.const(len(seen_ops) == 1)))
        if len(seen_ops) == 1:
            op = seen_ops[0]
            if cfg["steps"] in ("none", "sigma"):
                sg = kw.get("sigma", 1)
                v = V.array("pv", [P.n, 1], False)
                obl.append(("tau_default_from_KH_S_K", O.eq(np.ravel(op(v)), np.ravel(Kmat.T @ (sg * (Kmat @ v))))))
                obl.append(("tau_is_reciprocal_of_its_largest_eigenvalue", O.eq(al.tau * vals[-1], 1)))
            else:
                w = V.array("pw", [Kmat.shape[0], 1], False)
                obl.append(("sigma_default_from_K_T_KH", O.eq(np.ravel(op(np.reshape(w, op.ishape))), np.ravel(Kmat @ (kw["tau"] * (Kmat.T @ w))))))
                obl.append(("sigma_is_reciprocal_of_its_largest_eigenvalue", O.eq(al.sigma * vals[-1], 1)))
    ushape = list(np.shape(al.u))
    if cfg.get("accel"):
        # the acceleration parameters handed to PrimalDualHybridGradient must be strong-convexity moduli of the functions the prox objects
        # stand for (otherwise the step-size schedule theta/tau/sigma leaves the convergent regime and the run stalls away from the minimiser):
        # the prox of a gamma-strongly convex function with step s is 1/(1 + s gamma)-Lipschitz - asserted for ALL pairs of points
        for nm, pr, gam, shape in (("dual", al.proxfc, al.gamma_dual, ushape), ("primal", al.proxg, al.gamma_primal, [P.n, 1])):
            if isinstance(gam, (int, float)) and gam == 0:
                obl.append(("%s_acceleration_off" % nm, O.const(True)))
                continue
            a, b_ = V.array(nm + "_a", shape, False), V.array(nm + "_b", shape, False)
            st = _pos(V, nm + "_step")
            d = np.ravel(pr(st, a) - pr(st, b_))
            e = np.ravel(a - b_)
            obl.append(("%s_acceleration_parameter_is_a_strong_convexity_modulus" % nm,
                        O.le(O.vdot(d, d) * (1 + st * gam) * (1 + st * gam), O.vdot(e, e))))
        return obl
    x = V.array("x", [P.n, 1], False)
    u = V.array("u", ushape, False)
    sp.backend.copyto(al.x, x)
    sp.backend.copyto(al.x_ext, x)
    sp.backend.copyto(al.u, u)
    al.update()
    fixed = B.and_(O.eq(al.x, x), O.eq(al.u, u))
    uf = list(np.ravel(u))
    if P.G is None:
        # dual = residual; primal prox carries g and the l2 term: multiplier of g is -(grad smooth)
        res_ok = O.eq(np.array(uf).reshape(P.m, 1), P.Amat @ x - P.y)
        w = list(np.ravel(-P.grad_smooth(x)))
        k = B.and_(res_ok, P.in_subdiff(w, list(np.ravel(x))) if P.gk is not None else O.eq(P.grad_smooth(x), np.zeros((P.n, 1))))
    else:
        u1 = np.array(uf[:P.m]).reshape(P.m, 1)
        w = uf[P.m:]
        k = B.and_(O.eq(u1, P.Amat @ x - P.y), P.kkt(x, w))
    obl.append(("fixed_point_implies_kkt", B.implies(fixed, k)))
    obl.append(("kkt_implies_fixed_point", B.implies(k, fixed)))
    obl.append(("inputs_unchanged", _unchanged(P, y0, z0)))
    return obl


def h_admm(cfg, V):
    import sigpy as sp
    P = Problem(cfg, V)
    y0 = P.y.copy()
    z0 = P.z.copy() if P.z is not None else None
    x0 = V.array("x0", [P.n, 1], False) if cfg["x"] else None
    rho = _pos(V, "rho") if cfg["rho"] else 1
    app = P.app(cfg, x0, rho=rho, max_cg_iter=P.n + 1)
    al = app.alg
    obl = [("solver_is_admm", O.const(type(al).__name__ == "ADMM"))]
    x = V.array("x", [P.n, 1], False)
    vshape = list(np.shape(al.z))
    v = V.array("v", vshape, False)
    u = V.array("u", vshape, False)
    sp.backend.copyto(al.x, x)
    sp.backend.copyto(al.z, v)
    sp.backend.copyto(al.u, u)
    al.update()
    fixed = B.and_(O.eq(al.x, x), O.eq(al.z, v), O.eq(al.u, u))
    w = [rho * ui for ui in np.ravel(u)]
    gx = np.ravel(P.Gmat @ x)
    k = B.and_(O.eq(np.ravel(v), gx), P.kkt(x, w))
    obl.append(("fixed_point_implies_kkt", B.implies(fixed, k)))
    obl.append(("kkt_implies_fixed_point", B.implies(k, fixed)))
    obl.append(("inputs_unchanged", _unchanged(P, y0, z0)))
    return obl


def h_reject(cfg, V):
    P = Problem(cfg, V)
    try:
        P.app(cfg, None)
    except Exception:
        return [("unsupported_combination_raises", O.const(True))]
    return [("unsupported_combination_raises", O.const(False))]


HARNESSES = {"cg": h_cg, "gm": h_gm, "pdhg": h_pdhg, "admm": h_admm, "reject": h_reject}


def configs(tier, seed):
    full = tier == "thorough"
    out = []

    def add(h, **kw):
        ident = ":".join("%s=%s" % (k, kw[k]) for k in sorted(kw) if k != "cost")
        kw.update(id="%s:%s" % (h, ident), h=h, max_paths=4000)
        kw.setdefault("cost", 10)
        out.append(kw)
    As = ["dense2", "tall32", "id2"] if full else ["dense2", "id2"]
    lams = ["0", "half", "two"] if full else ["0", "half"]
    # CG (and solver=None without proxg)
    for A, lam, z, x, solver in itertools.product(As + ["one"], lams, (False, True), (False, True), ("ConjugateGradient", None)):
        if not full and solver is None and (A != "dense2" or x):
            continue
        add("cg", A=A, lam=lam, z=z, x=x, solver=solver, G=None, g=None)
    add("cg", A="dense2", lam="half", z=True, x=True, solver="ConjugateGradient", G=None, g=None, P=True)
    add("cg", A="dense2", lam="half", z=True, x=False, solver=None, G="dense2", g=None)
    # GradientMethod
    for A, lam, z, g, acc, alpha in itertools.product(As, lams, (False, True), (None, "l1", "l2", "box"), (False, True), (False, True)):
        if not full and ((A != "dense2" and (acc or not alpha)) or (g in ("l2",) and acc)):
            continue
        solver = None if (g is not None and not alpha and not acc) else "GradientMethod"
        add("gm", A=A, lam=lam, z=z, x=bool(alpha), solver=solver, G=None, g=g, acc=acc, alpha=alpha)
    # PDHG
    for A, lam, z, g, G, steps in itertools.product(As, lams, (False, True), (None, "l1", "l2", "box"), (None, "dense2", "fd", "wide"), ("none", "tau", "sigma", "both")):
        if G is not None and g is None:
            continue
        if A == "one" or (A == "id2" and G == "wide" and not full):
            continue
        if z and lam == "0":
            continue
        if not full:
            if steps in ("tau", "sigma") and not (A == "dense2" and g == "l1" and G in (None, "fd") and lam == "half" and z):
                continue
            if A != "dense2" and (G not in (None, "dense2") or g not in (None, "l1") or steps != "both"):
                continue
            if g in ("l2", "box") and (G not in (None, "fd") or steps != "none"):
                continue
            if G == "wide" and steps != "both":
                continue
        solver = None if (G is not None and steps == "none") else "PrimalDualHybridGradient"
        add("pdhg", A=A, lam=lam, z=z, x=(steps == "both"), solver=solver, G=G, g=g, steps=steps, cost=50)
    # ADMM (1-column problems: the inner CG solve is exact after one step; larger inner systems exceed the budget)
    for A, lam, z, g, G, rho in itertools.product(("two11", "tall21"), lams, (False, True), (None, "l1", "l2", "box"), (None, "g11", "g21"), (False, True)):
        if G is not None and g is None:
            continue
        if z and lam == "0":
            continue
        if not full:
            if rho and (g != "l1" or G == "g21"):
                continue
            if A == "tall21" and (g not in ("l1",) or G == "g11"):
                continue
            if g in ("l2", "box") and G == "g21":
                continue
        add("admm", A=A, lam=lam, z=z, x=rho, solver="ADMM", G=G, g=g, rho=rho, cost=80)
    for lam, z in (("0", False), ("half", True)):
        add("admm", A="id2", lam=lam, z=z, x=False, solver="ADMM", G=None, g="l1", rho=False, cost=80)
    # ARBITRARY A (every entry a solver variable) and arbitrary lamda > 0
    for A in ("sym22", "sym32"):
        add("cg", A=A, lam="sym", z=True, x=True, solver="ConjugateGradient", G=None, g=None, cost=30)
        for g in (None, "l1", "box"):
            for acc in (False, True):
                add("gm", A=A, lam="sym", z=True, x=True, solver="GradientMethod", G=None, g=g, acc=acc, alpha=True, cost=60)
    for A, G, g in (("sym22", None, None), ("sym22", None, "l1"), ("sym22", "fd", "l1"), ("sym22", "dense2", "l1"), ("sym22", "wide", "box"), ("sym32", None, "l1")):
        # measured on the unchanged tree: the quick tier keeps the configurations that take about a minute or less;
        # sym32 / l1 / lamda = 0 leaves 4 obligations `unknown` after 8 min and is outside (OUTSIDE)
        if full or (G, g) in ((None, None), ("wide", "box"), (None, "l1")) and A == "sym22":
            add("pdhg", A=A, lam="sym", z=True, x=True, solver="PrimalDualHybridGradient", G=G, g=g, steps="both", cost=100)
        if (full and A == "sym22") or (G, g) in ((None, None), ("wide", "box"), ("fd", "l1")):
            add("pdhg", A=A, lam="0", z=False, x=True, solver="PrimalDualHybridGradient", G=G, g=g, steps="both", cost=100)
    for A, G, g in (("sym11", None, None), ("sym11", None, "l1"), ("sym11", "g11", "l1"), ("sym21", None, "l1")):
        if full or (A == "sym11" and G is None):
            add("admm", A=A, lam="sym", z=True, x=True, solver="ADMM", G=G, g=g, rho=True, cost=100)
    # G whose forward call returns its argument itself (Identity) or a view of it (Reshape): the solver's split variable must not alias x
    for A, G in (("two11", "ident"), ("tall21", "reshape")) + ((("id2", "ident"),) if full else ()):
        add("admm", A=A, lam="half", z=True, x=True, solver="ADMM", G=G, g="l1", rho=True, cost=80)
    add("pdhg", A="dense2", lam="half", z=True, x=True, solver="PrimalDualHybridGradient", G="ident", g="l1", steps="both", cost=50)
    add("pdhg", A="dense2", lam="0", z=False, x=False, solver=None, G="reshape", g="box", steps="none", cost=50)
    # acceleration parameters = strong-convexity moduli (contraction of the real prox objects for all pairs of points)
    for A, lam, z, g, G in (("dense2", "0", False, "l1", "fd"), ("dense2", "0", False, "box", "dense2"), ("one", "half", True, "l1", None),
                            ("dense2", "half", True, "l1", "fd"), ("id2", "0", False, "l1", None), ("dense2", "0", False, None, None),
                            ("tall32", "two", False, "l2", "wide"), ("dense2", "sym", True, "box", None), ("dense2", "sym", True, "l1", "dense2")):
        add("pdhg", A=A, lam=lam, z=z, x=True, solver="PrimalDualHybridGradient", G=G, g=g, steps="both", accel=True, cost=50)
    # default GradientMethod step for operators of small norm (alpha must stay <= 1 / (||A||^2 + lamda))
    for A, lam, g in (("small2", "two", None), ("small2", "half", "l1"), ("small11", "two", "l1"), ("small11", "half", None)):
        add("gm", A=A, lam=lam, z=True, x=False, solver="GradientMethod", G=None, g=g, acc=False, alpha=False)
    # unsupported combinations
    add("reject", A="dense2", lam="0", z=False, solver="ConjugateGradient", G=None, g="l1")
    add("reject", A="dense2", lam="half", z=True, solver="ConjugateGradient", G="dense2", g="box")
    add("reject", A="dense2", lam="0", z=False, solver="GradientMethod", G="dense2", g="l1")
    add("reject", A="dense2", lam="0", z=False, solver="GradientMethod", G="fd", g=None)
    add("reject", A="dense2", lam="0", z=False, solver="Newton", G=None, g=None)
    return out
