"""C08 - convolve matches the convolution definition; adjoints are exact."""
import itertools

import numpy as np

from symsig import oracle as O

PROPERTY = "C08"
FUNCTIONS = ["sigpy.conv.convolve/_convolve", "sigpy.conv.convolve_data_adjoint/_convolve_data_adjoint",
             "sigpy.conv.convolve_filter_adjoint/_convolve_filter_adjoint", "sigpy.conv._get_convolve_params"]
BOUNDS = {"quick": "D=1: data/filter lengths 1..4 (shorter/equal/longer), strides 1..3, full/valid, exhaustive; D=2,3 selected; batch and channel counts 1..2",
          "thorough": "adds D=2 grids (lengths 1..3 per axis, strides 1..2) and multi-channel D=2, D=3"}
OUTSIDE = ["lengths > 4, D > 3", "GPU (cuDNN) paths"]
ASSUMPTIONS = ["scipy.signal.convolve/correlate compute the documented full/valid convolution/correlation (definition stub for object arrays, "
               "validated against SciPy at start-up); data, filter and output values arbitrary complex"]
EXPLANATION = ("Call histories: sequences of calls with the same shapes and different strides in one process must each satisfy the definition and adjoint identities (no state carried between calls).  "
               "C08: every output sample equals the sum over input channels and taps of data times flipped filter (independent triple-loop "
               "oracle, 'full'/'valid', strides); both adjoints satisfy the inner-product identity and return the requested shapes; a shape "
               "combination the mode admits must be computed correctly or raise.")


def _definition(d, f, mode, strides, mc, V):
    """independent oracle.  d: batch + [c_i] + m ; f: [c_o, c_i] + n (mc) or n"""
    D = f.ndim - 2 * mc
    m = d.shape[d.ndim - D:]
    n = f.shape[f.ndim - D:]
    b = d.shape[:d.ndim - D - mc]
    ci = f.shape[1] if mc else 1
    co = f.shape[0] if mc else 1
    dd = d.reshape((-1, ci) + tuple(m)) if d.size else d
    ff = f.reshape((co, ci) + tuple(n))
    full = [mm + nn - 1 for mm, nn in zip(m, n)]
    if mode == "full":
        start = [0] * D
        length = full
    else:
        ok1 = all(mm >= nn for mm, nn in zip(m, n))
        ok2 = all(nn >= mm for mm, nn in zip(m, n))
        if not (ok1 or ok2):
            return None
        start = [min(mm, nn) - 1 for mm, nn in zip(m, n)]
        length = [max(mm, nn) - min(mm, nn) + 1 for mm, nn in zip(m, n)]
    p = [len(range(0, L, s)) for L, s in zip(length, strides)]
    B = dd.shape[0]
    out = np.zeros((B, co) + tuple(p), dtype=object if V.symbolic else np.complex128)
    for k in range(B):
        for j in range(co):
            for pidx in np.ndindex(*p):
                pos = [st + s * q for st, s, q in zip(start, strides, pidx)]
                acc = 0
                for i in range(ci):
                    for t in np.ndindex(*n):
                        src = tuple(pp - tt for pp, tt in zip(pos, t))
                        if all(0 <= sx < mm for sx, mm in zip(src, m)):
                            acc = acc + dd[(k, i) + src] * ff[(j, i) + tuple(t)]
                out[(k, j) + pidx] = acc
    return out.reshape(tuple(b) + ((co,) if mc else ()) + tuple(p))


def h_conv(cfg, V):
    from sigpy import conv
    dsh, fsh, mode, strides, mc = cfg["dshape"], cfg["fshape"], cfg["mode"], cfg["strides"], cfg["mc"]
    d = V.array("d", dsh)
    f = V.array("f", fsh)
    D = len(fsh) - 2 * mc
    s = strides if strides is not None else [1] * D
    try:
        y = conv.convolve(d, f, mode=mode, strides=strides, multi_channel=mc)
    except Exception:
        # rejected with an error: acceptable for any combination
        return [("rejected_or_correct", O.const(True))]
    ref = _definition(d, f, mode, s, mc, V)
    if ref is None:
        return [("rejected_or_correct", O.const(False))]
    obl = [("rejected_or_correct", O.eq(y, ref))]
    if list(np.shape(y)) != list(ref.shape):
        return obl
    o = V.array("o", list(ref.shape))
    lhs = O.vdot(y, o)
    try:
        da = conv.convolve_data_adjoint(o, f, dsh, mode=mode, strides=strides, multi_channel=mc)
        obl.append(("data_adjoint_shape", O.const(list(np.shape(da)) == list(dsh))))
        obl.append(("data_adjoint_identity", O.eq(lhs, O.vdot(d, da))))
    except Exception:
        obl.append(("data_adjoint_raises_for_admitted_shapes", O.const(False)))
    try:
        fa = conv.convolve_filter_adjoint(o, d, fsh, mode=mode, strides=strides, multi_channel=mc)
        obl.append(("filter_adjoint_shape", O.const(list(np.shape(fa)) == list(fsh))))
        obl.append(("filter_adjoint_identity", O.eq(lhs, O.vdot(f, fa))))
    except Exception:
        obl.append(("filter_adjoint_raises_for_admitted_shapes", O.const(False)))
    return obl


def h_seq(cfg, V):
    """history: the same shapes with a SEQUENCE of different strides in one process (each call must be independent of the earlier ones)"""
    from sigpy import conv
    dsh, fsh, mode, mc = cfg["dshape"], cfg["fshape"], cfg["mode"], cfg["mc"]
    d = V.array("d", dsh)
    f = V.array("f", fsh)
    obl = []
    for step, strides in enumerate(cfg["seq"]):
        y = conv.convolve(d, f, mode=mode, strides=strides, multi_channel=mc)
        ref = _definition(d, f, mode, strides, mc, V)
        obl.append(("call%d_forward_is_definition" % step, O.eq(y, ref)))
        o = V.array("o%d" % step, list(ref.shape))
        lhs = O.vdot(ref, o)
        da = conv.convolve_data_adjoint(o, f, dsh, mode=mode, strides=strides, multi_channel=mc)
        obl.append(("call%d_data_adjoint_identity" % step, O.eq(lhs, O.vdot(d, da))))
        fa = conv.convolve_filter_adjoint(o, d, fsh, mode=mode, strides=strides, multi_channel=mc)
        obl.append(("call%d_filter_adjoint_identity" % step, O.eq(lhs, O.vdot(f, fa))))
    return obl


HARNESSES = {"conv": h_conv, "seq": h_seq}


def configs(tier, seed):
    full = tier == "thorough"
    out = []

    def add(dsh, fsh, mode, strides, mc):
        out.append({"id": "conv:d=%s:f=%s:%s:s=%s:mc=%s" % (dsh, fsh, mode, strides, mc), "h": "conv", "dshape": dsh, "fshape": fsh,
                    "mode": mode, "strides": strides, "mc": mc})
    for m in range(1, 5):
        for n in range(1, 5):
            for mode in ("full", "valid"):
                for s in (None, 1, 2, 3):
                    add([m], [n], mode, None if s is None else [s], False)
    sel = [([2, 3], [2], "full", None, False), ([2, 3], [2], "valid", [2], False), ([3, 4], [2, 2], "valid", [2, 1], False),
           ([3, 3], [2, 2], "full", [1, 2], False), ([2, 2], [3, 3], "valid", None, False), ([2, 3], [3, 2], "valid", None, False),
           ([2, 3], [3, 2], "full", None, False), ([2, 4], [1, 2, 3], "full", None, True), ([2, 2, 3], [2, 2, 2], "valid", [2], True),
           ([1, 3], [2, 1, 2], "full", [2], True), ([2, 2, 3], [1, 2, 2], "valid", None, True), ([2, 2, 2], [2, 2, 2], "full", [2, 1, 2], False),
           ([2, 3, 2], [2, 1, 2], "valid", None, False), ([2, 1, 2, 2], [2, 1, 2, 2], "full", None, True), ([2, 2], [2, 2, 2], "full", None, True),
           ([3], [1, 1, 4], "valid", [2], True), ([2, 2, 2], [1, 2, 3], "valid", [3], True)]
    for c in sel:
        add(*c)
    if full:
        for m1, m2, n1, n2 in itertools.product((1, 2, 3), (1, 3), (1, 2, 3), (1, 2)):
            for mode in ("full", "valid"):
                for s in (None, [2, 1], [1, 2]):
                    add([m1, m2], [n1, n2], mode, s, False)
        for ci, co in itertools.product((1, 2), (1, 2)):
            for mode in ("full", "valid"):
                add([2, ci, 2, 3], [co, ci, 2, 2], mode, [1, 2], True)
                add([ci, 3], [co, ci, 2], mode, [2], True)
        add([2, 3, 2], [2, 2, 2], "valid", None, False)
        add([3, 2, 3], [2, 2, 2], "full", [2, 2, 2], False)
    # call histories: same shapes, different strides with equal output length (and back)
    seqs = [([5], [1], "full", [[3], [4], [3]], False), ([4], [1], "full", [[2], [3]], False), ([3], [2], "full", [[3], [2], [3]], False),
            ([5], [2], "valid", [[2], [3], [2]], False), ([2], [4], "valid", [[2], [1], [2]], False), ([3, 3], [1, 1], "full", [[2, 2], [2, 1], [1, 2], [2, 2]], False),
            ([2, 4], [1, 2, 1], "full", [[3], [2], [3]], True)]
    if full:
        seqs += [([5, 5], [1, 1], "full", [[2, 3], [2, 4], [2, 3]], False), ([2, 2, 4], [2, 2, 1], "full", [[3], [2]], True),
                 ([4, 3], [2, 2], "valid", [[2, 1], [1, 2], [2, 2], [2, 1]], False)]
    for dsh, fsh, mode, seq, mc in seqs:
        out.append({"id": "seq:d=%s:f=%s:%s:%s:mc=%s" % (dsh, fsh, mode, seq, mc), "h": "seq", "dshape": dsh, "fshape": fsh, "mode": mode, "seq": seq, "mc": mc})
    seen, res = set(), []
    for c in out:
        if c["id"] not in seen:
            seen.add(c["id"])
            res.append(c)
    return res


def extra_phases(tier, seed, results):
    """CrossHair (z3 underneath) on the integer shape helpers with SYMBOLIC sizes"""
    from symsig import chx
    viol, inc, summary, samples = chx.evaluate("ch/shapes_c08.py", per_condition_timeout=150 if tier == "quick" else 400)
    return {"violations": viol, "inconclusive": inc, "summary": {"crosshair ch/shapes_c08.py": summary}, "samples": [], "evaluations": summary["contracts"],
            "distinct_nontrivial": summary["contracts"],
            "crosshair": {"module": "ch/shapes_c08.py", "bounds": "symbolic sizes within the ranges stated in each contract's pre-condition", "verdicts": summary["verdicts"],
                          "contracts": samples}}
