"""C02 - operators are linear over C, deterministic, and never mutate inputs."""
import numpy as np

from symsig import oracle as O
from . import catalogue as C
from . import trees
from .c01 import _dedup

PROPERTY = "C02"
FUNCTIONS = ["sigpy.linop.* apply / .H / .N caching", "sigpy.prox.{L1Reg,L2Reg,L2Proj,LInfProj,L1Proj,BoxConstraint,Conj,Stack,UnitaryTransform,NoOp}",
             "sigpy.util.{resize,flip,circshift,downsample,upsample,rss,vec,split,axpy,xpay}", "sigpy.fourier.{fft,ifft,nufft,nufft_adjoint}",
             "sigpy.thresh.{soft_thresh,hard_thresh,l1_proj,l2_proj,linf_proj}", "sigpy.interp.{interpolate,gridding}",
             "sigpy.conv.{convolve,convolve_data_adjoint,convolve_filter_adjoint}", "sigpy.block.{array_to_blocks,blocks_to_array}",
             "sigpy.mri.util.get_cov"]
BOUNDS = {"quick": "quick leaf catalogue + rule core + 60 seeded depth-2 trees; prox/functions on <= 6 elements",
          "thorough": "full leaf catalogue + exhaustive depth-2 + 300 seeded depth-3 trees; prox/functions on <= 6 elements"}
OUTSIDE = ["mri.util.whiten (LAPACK Cholesky/solve)", "PsdProj (LAPACK eig; see C11)", "Wavelet functions (PyWavelets)", "plot/sim helpers"]
ASSUMPTIONS = ["NumPy's own view/in-place semantics are in force (object arrays are real ndarrays)",
               "prox parameters alpha, lamda, eps > 0 assumed"]
EXPLANATION = ("C02: A(a x + y) = a A(x) + A(y) with symbolic complex a; repeated application (with .H/.N taken in between) gives equal "
               "outputs; after every call each argument array and each array captured by the operator equals its pre-state.")


def _arr(v, shape, V):
    """NumPy arithmetic on 0-d arrays yields scalars, which Linop.__call__ would take for scalar multipliers: hand operators arrays"""
    return np.asarray(v, dtype=object if V.symbolic else None).reshape(tuple(shape))


def h_op(cfg, V):
    params = []
    A = C.build(cfg["spec"], V, params=params)
    x = V.array("x", A.ishape)
    y = V.array("y", A.ishape)
    z = V.array("z", A.oshape)
    w = V.array("w", A.oshape)
    a = V.scalar("a", True)
    snap = [(n, np.array(p, copy=True)) for n, p in params]
    x0, y0, z0, w0 = x.copy(), y.copy(), z.copy(), w.copy()
    Ax = A(x)
    Ax_val = np.array(Ax, copy=True)
    lhs = A(_arr(a * x + y, A.ishape, V))
    rhs = a * Ax + A(y)
    obl = [("linear", O.eq(lhs, rhs))]
    AH = A.H
    AHz = AH(z)
    AHz_val = np.array(AHz, copy=True)
    N = A.N
    Nx = N(x)
    Nx_val = np.array(Nx, copy=True)
    Ax2 = A(x)
    obl.append(("deterministic", O.eq(Ax2, Ax_val)))
    obl.append(("first_output_intact", O.eq(Ax, Ax_val)))
    # the adjoint and the normal operator are linear and deterministic too (the statement covers A, A.H, A.N)
    obl.append(("adjoint_linear", O.eq(AH(_arr(a * z + w, A.oshape, V)), a * AHz_val + AH(w))))
    obl.append(("normal_linear", O.eq(N(_arr(a * x + y, A.ishape, V)), a * Nx_val + N(y))))
    obl.append(("adjoint_deterministic", O.all_([O.eq(A.H(z), AHz_val), O.eq(AHz, AHz_val)])))
    obl.append(("normal_deterministic", O.all_([O.eq(A.N(x), Nx_val), O.eq(Nx, Nx_val)])))
    obl.append(("input_unchanged", O.all_([O.eq(x, x0), O.eq(y, y0), O.eq(z, z0), O.eq(w, w0)])))
    obl.append(("parameters_unchanged", O.all_([O.eq(p, s) for (n, p), (_, s) in zip(params, snap)])))
    return obl


def _pos(V, name):
    v = V.scalar(name)
    V.assume(v > 0, name + " > 0")
    return v


def _prox_table():
    from sigpy import prox, linop
    T = {}
    T["L1Reg"] = lambda V, sh: (prox.L1Reg(sh, _pos(V, "lam")), [])
    T["NoOp"] = lambda V, sh: (prox.NoOp(sh), [])

    def l2reg(V, sh):
        yb = V.array("yb", sh)
        return prox.L2Reg(sh, _pos(V, "lam"), y=yb), [("yb", yb)]
    T["L2Reg_y"] = l2reg

    def l2reg_h(V, sh):
        yb = V.array("yb", sh)
        return prox.L2Reg(sh, _pos(V, "lam"), y=yb, proxh=prox.L1Reg(sh, _pos(V, "mu"))), [("yb", yb)]
    T["L2Reg_y_proxh"] = l2reg_h

    def l2proj(V, sh):
        yb = V.array("yb", sh)
        return prox.L2Proj(sh, _pos(V, "eps"), y=yb), [("yb", yb)]
    T["L2Proj_y"] = l2proj

    def linf(V, sh):
        b = V.array("b", sh)
        return prox.LInfProj(sh, _pos(V, "eps"), bias=b), [("b", b)]
    T["LInfProj_bias"] = linf
    T["L1Proj"] = lambda V, sh: (prox.L1Proj(sh, _pos(V, "eps")), [])

    def box(V, sh):
        lo = V.array("lo", sh, False)
        up = V.array("up", sh, False)
        return prox.BoxConstraint(sh, lo, up), [("lo", lo), ("up", up)]
    T["BoxConstraint"] = box
    T["Conj_L1Reg"] = lambda V, sh: (prox.Conj(prox.L1Reg(sh, _pos(V, "lam"))), [])
    T["Stack"] = lambda V, sh: (prox.Stack([prox.L1Reg([1], _pos(V, "lam")), prox.L2Reg([1], _pos(V, "mu"))]), [])
    T["UnitaryTransform"] = lambda V, sh: (prox.UnitaryTransform(prox.L1Reg(sh, _pos(V, "lam")), linop.Flip(sh)), [])
    return T


def h_prox(cfg, V):
    build = _prox_table()[cfg["prox"]]
    sh = cfg["shape"]
    P, params = build(V, sh)
    cplx = cfg["cplx"]
    y = V.array("y", P.shape, cplx)
    alpha = _pos(V, "alpha")
    y0 = y.copy()
    snap = [(n, p.copy()) for n, p in params]
    r1 = P(alpha, y)
    r1v = np.array(r1, copy=True)
    r2 = P(alpha, y)
    return [("input_unchanged", O.eq(y, y0)),
            ("parameters_unchanged", O.all_([O.eq(p, s) for (n, p), (_, s) in zip(params, snap)])),
            ("deterministic", O.eq(r2, r1v))]


def _func_table():
    import sigpy as sp
    from sigpy import util, fourier, thresh, interp, conv, block
    import sigpy.mri.util as mu
    T = {}

    def reg(name, shapes, fn, mut=(), cplx=True, field=4):
        T[name] = (shapes, fn, set(mut), cplx, field)
    reg("util.resize_pad", {"x": [2, 3]}, lambda a, V: util.resize(a["x"], [3, 5]))
    reg("util.resize_crop", {"x": [3, 4]}, lambda a, V: util.resize(a["x"], [2, 2]))
    reg("util.resize_same", {"x": [2, 3]}, lambda a, V: util.resize(a["x"], [2, 3]))
    reg("util.flip", {"x": [2, 3]}, lambda a, V: util.flip(a["x"], [-1]))
    reg("util.circshift", {"x": [2, 3]}, lambda a, V: util.circshift(a["x"], [1, -1]))
    reg("util.downsample", {"x": [5]}, lambda a, V: util.downsample(a["x"], [2], [1]))
    reg("util.upsample", {"x": [3]}, lambda a, V: util.upsample(a["x"], [5], [2]))
    reg("util.rss", {"x": [2, 2]}, lambda a, V: util.rss(a["x"]))
    reg("util.vec", {"x": [2, 2], "y": [3]}, lambda a, V: util.vec([a["x"], a["y"]]))
    reg("util.split", {"x": [5]}, lambda a, V: util.split(a["x"], [[2], [3]]))
    reg("util.axpy", {"y": [3], "x": [3]}, lambda a, V: util.axpy(a["y"], V.scalar("a", True), a["x"]), mut=["y"])
    reg("util.xpay", {"y": [3], "x": [3]}, lambda a, V: util.xpay(a["y"], V.scalar("a", True), a["x"]), mut=["y"])
    reg("fourier.fft", {"x": [3, 2]}, lambda a, V: fourier.fft(a["x"], oshape=[4, 2], axes=[0]), field=8)
    reg("fourier.ifft", {"x": [3]}, lambda a, V: fourier.ifft(a["x"], center=False), field=12)
    reg("fourier.fft_nocenter_norm", {"x": [2, 2]}, lambda a, V: fourier.fft(a["x"], center=False, norm=None), field=8)
    reg("fourier.nufft", {"x": [4]}, lambda a, V: fourier.nufft(a["x"], np.array([[0.3], [-1.6]])), field=20)
    reg("fourier.nufft_adjoint", {"x": [2]}, lambda a, V: fourier.nufft_adjoint(a["x"], np.array([[0.3], [-1.6]]), [4]), field=20)
    reg("thresh.soft_thresh", {"x": [2]}, lambda a, V: thresh.soft_thresh(_pos(V, "lam"), a["x"]))
    reg("thresh.hard_thresh", {"x": [2]}, lambda a, V: thresh.hard_thresh(_pos(V, "lam"), a["x"]))
    reg("thresh.l1_proj", {"x": [2]}, lambda a, V: thresh.l1_proj(_pos(V, "eps"), a["x"]), cplx=False)
    reg("thresh.l2_proj", {"x": [2]}, lambda a, V: thresh.l2_proj(_pos(V, "eps"), a["x"]))
    reg("thresh.linf_proj", {"x": [2], "b": [2]}, lambda a, V: thresh.linf_proj(_pos(V, "eps"), a["x"], bias=a["b"]))
    reg("interp.interpolate", {"x": [2, 3]}, lambda a, V: interp.interpolate(a["x"], np.array([[0.3], [-1.6]]), width=2, param=1))
    reg("interp.gridding", {"x": [2, 2]}, lambda a, V: interp.gridding(a["x"], np.array([[0.3], [0.3]]), [2, 3], kernel="kaiser_bessel", width=3, param=2.3))
    reg("conv.convolve", {"d": [2, 3], "f": [2]}, lambda a, V: conv.convolve(a["d"], a["f"], mode="valid", strides=[2]))
    reg("conv.convolve_data_adjoint", {"o": [1, 4], "f": [1, 2, 2]},
        lambda a, V: conv.convolve_data_adjoint(a["o"], a["f"], [2, 3], mode="full", multi_channel=True))
    reg("conv.convolve_filter_adjoint", {"o": [2], "d": [3]}, lambda a, V: conv.convolve_filter_adjoint(a["o"], a["d"], [2], mode="valid"))
    reg("block.array_to_blocks", {"x": [2, 4]}, lambda a, V: block.array_to_blocks(a["x"], [2], [1]))
    reg("block.blocks_to_array", {"x": [3, 2]}, lambda a, V: block.blocks_to_array(a["x"], [4], [2], [1]))
    reg("mri.util.get_cov", {"noise": [2, 2, 2]}, lambda a, V: mu.get_cov(a["noise"]))
    return T


def h_func(cfg, V):
    shapes, fn, mut, cplx, field = _func_table()[cfg["fn"]]
    arrs = {k: V.array(k, s, cplx) for k, s in shapes.items()}
    snap = {k: v.copy() for k, v in arrs.items()}
    fn(arrs, V)
    obl = []
    for k in shapes:
        if k in mut:
            continue
        obl.append(("argument_%s_unchanged" % k, O.eq(arrs[k], snap[k])))
    return obl


HARNESSES = {"op": h_op, "prox": h_prox, "func": h_func}


def configs(tier, seed):
    out = []
    for spec in C.leaves(tier):
        out.append({"id": "leaf:" + C.sid(spec), "h": "op", "spec": spec, "field": C.field_for(spec)})
    for spec in trees.tree_specs(tier, seed):
        out.append({"id": "tree:" + C.sid(spec), "h": "op", "spec": spec, "field": C.field_for(spec)})
    for name in _PROX_NAMES:
        for cplx in (False, True):
            sh = [2]
            if name in ("L1Proj", "BoxConstraint") and cplx:
                continue
            if name == "L2Reg_y_proxh" and cplx:
                sh = [1]
            out.append({"id": "prox:%s:%s" % (name, "c" if cplx else "r"), "h": "prox", "prox": name, "shape": sh, "cplx": cplx, "max_paths": 3000})
    for name, field in _FUNC_NAMES:
        out.append({"id": "func:" + name, "h": "func", "fn": name, "field": field, "max_paths": 3000})
    return _dedup(out)


_PROX_NAMES = ["L1Reg", "NoOp", "L2Reg_y", "L2Reg_y_proxh", "L2Proj_y", "LInfProj_bias", "L1Proj", "BoxConstraint", "Conj_L1Reg", "Stack",
               "UnitaryTransform"]
_FUNC_NAMES = [("util.resize_pad", 4), ("util.resize_crop", 4), ("util.resize_same", 4), ("util.flip", 4), ("util.circshift", 4),
               ("util.downsample", 4), ("util.upsample", 4), ("util.rss", 4), ("util.vec", 4), ("util.split", 4), ("util.axpy", 4),
               ("util.xpay", 4), ("fourier.fft", 8), ("fourier.ifft", 12), ("fourier.fft_nocenter_norm", 8), ("fourier.nufft", 20),
               ("fourier.nufft_adjoint", 20), ("thresh.soft_thresh", 4), ("thresh.hard_thresh", 4), ("thresh.l1_proj", 4),
               ("thresh.l2_proj", 4), ("thresh.linf_proj", 4), ("interp.interpolate", 4), ("interp.gridding", 4), ("conv.convolve", 4),
               ("conv.convolve_data_adjoint", 4), ("conv.convolve_filter_adjoint", 4), ("block.array_to_blocks", 4),
               ("block.blocks_to_array", 4), ("mri.util.get_cov", 4)]
