"""C17 - ESPIRiT maps are unit-norm or zero, phase-referenced to coil 0, eigenvalues in [0, 1] (recovery of true maps: outside)."""
from fractions import Fraction

import numpy as np

from symsig import oracle as O
from symsig import scalar as S
from symsig.scalar import B
from symsig.algebra import required_N
from props.c05 import _dft_oracle, _center_resize

PROPERTY = "C17"
FUNCTIONS = ["sigpy.mri.app.EspiritCalib.__init__ (calibration matrix, kernel selection by thresh, image-domain Gram matrices and their scaling)",
             "sigpy.alg.PowerMethod._update with EspiritCalib's per-voxel normalisation", "sigpy.mri.app.EspiritCalib._output (phase reference, crop)",
             "sigpy.block.array_to_blocks, sigpy.util.resize, sigpy.fourier.ifft"]
BOUNDS = {"quick": "2 coils; images 2x2, 2x3 (2-D) and 2x2x2 (3-D); calib_width 2, kernel_width in {1, 2}; thresh, crop symbolic in (0, 1); "
                   "1 power iteration from an ARBITRARY state with ARBITRARY Hermitian Gram matrices (inductive step, covers any iteration count)",
          "thorough": "adds 3 coils, image 3x2, calib_width 3 with kernel_width 2 (Gram-matrix identity only)"}
OUTSIDE = ["recovery of the true maps for k-space synthesised from smooth maps (an analytic statement about calibration matrices of band-limited data)",
           "eigenvalues <= 1 for kernel_width >= 2 (needs the partial-isometry argument over all kernel positions); for kernel_width 1 it is decided "
           "through Hermitian idempotence of the Gram matrices + PowerMethod's bound (C15)",
           "all-zero k-space / a voxel whose Gram matrix annihilates the current vector (normalisation 0/0) and a voxel whose first-coil component is "
           "EXACTLY zero (phase reference 0/0): assumed away as definedness assumptions.  Checked concretely: a dead first channel (ksp[0] = 0) does not "
           "produce an exact zero through LAPACK (1e-17 noise), the maps stay finite and unit-norm, so this is not recorded as a finding"]
ASSUMPTIONS = ["np.linalg.svd is a contract stub: singular values sorted and non-negative (symbolic), VH arbitrary symbolic (Gram identity) or with "
               "orthonormal rows (projector clause); the real LAPACK call is used in the float replay",
               "the arbitrary-state harness writes symbolic Hermitian matrices into the Gram-matrix array captured by the real forward closure and "
               "symbolic vectors into app.mps (the array PowerMethod iterates on)",
               "divisions record 'denominator != 0' as definedness assumptions; 'first_coil_nonzero_when_kept' asks whether the phase reference can be 0/0"]
EXPLANATION = ("C17: (gram) the per-voxel matrices built by EspiritCalib.__init__ equal (N / kernel_width^ndim) * sum over kept kernels of a_k a_k^H with a_k the "
               "centred unitary inverse DFT of the zero-padded kernel, kernels kept iff S_k > thresh * S_max, for ALL right singular vectors; (projector) for "
               "kernel_width 1 and orthonormal singular vectors they are Hermitian idempotent, so eigenvalues lie in {0, 1}; (power) from ANY state and ANY "
               "Hermitian Gram matrices one power iteration followed by _output gives, at every voxel, a coil vector that is exactly zero or of unit l2 norm, "
               "coil 0 real and non-negative, zero iff the eigenvalue estimate is <= crop, estimate >= 0.")
REDUCE = True
CONFIG_BUDGET_S = {"quick": 900, "thorough": 1800}


def _svd_stub(Svals, VH):
    def svd_stub(a, full_matrices=True, **kw):
        return None, np.array(Svals, dtype=object), np.array(VH, dtype=object, copy=True)
    return svd_stub


def _gram_array(app):
    """the Gram-matrix array captured by the real forward closure of the power method"""
    fn = app.alg.A
    for cell in fn.__closure__:
        v = cell.cell_contents
        if isinstance(v, np.ndarray) and v.ndim >= 3 and v.shape[-1] == v.shape[-2]:
            return v
    raise RuntimeError("Gram matrix array not found in the forward closure")


def _setup(cfg, V, orthonormal):
    nc, kw, img, cw = cfg["nc"], cfg["kw"], cfg["img"], cfg["calib"]
    nd = len(img)
    nblk = (cw - kw + 1) ** nd
    ncol = nc * kw ** nd
    rank = min(nblk, ncol)
    obj = object if V.symbolic else np.complex128
    if orthonormal:
        cj = np.conj
        if rank == 1:
            r = V.array("v", [ncol], True)
            V.assume(O.eq(O.norm2(list(r)), 1), "unit row")
            VH = np.array([list(r)], dtype=obj)
        elif rank == 2 and ncol == 2:
            p, q = V.scalar("vp", True), V.scalar("vq", True)
            V.assume(O.eq(O.norm2([p, q]), 1), "unit row")
            e = V.scalar("ve", True)
            V.assume(O.eq(O.norm2([e]), 1), "unit phase")
            VH = np.array([[p, q], [-cj(q) * e, cj(p) * e]], dtype=obj)
        else:
            raise ValueError("no orthonormal parametrisation for rank %d x %d" % (rank, ncol))
    else:
        VH = V.array("vh", [rank, ncol], True)
    Svals = []
    for k in range(rank):
        s = V.scalar("s%d" % k)
        V.assume(s >= 0, "singular value >= 0")
        if k:
            V.assume(Svals[-1] >= s, "singular values sorted")
        Svals.append(s)
    V.assume(Svals[0] > 0, "non-zero calibration data")
    thresh, crop = V.scalar("thresh"), V.scalar("crop")
    for v, nm in ((thresh, "thresh"), (crop, "crop")):
        V.assume(v > 0, nm + " > 0")
        V.assume(v < 1, nm + " < 1")
    ksp = V.array("ksp", [nc] + list(img), True)     # values only reach the (stubbed) SVD
    return ksp, Svals, VH, thresh, crop


def _construct(cfg, V, ksp, Svals, VH, thresh, crop, iters=1):
    import sigpy.mri.app as mapp
    orig = np.linalg.svd
    if V.symbolic:
        np.linalg.svd = _svd_stub(Svals, VH)
    try:
        return mapp.EspiritCalib(ksp, calib_width=cfg["calib"], thresh=thresh, kernel_width=cfg["kw"], crop=crop, max_iter=iters,
                                 output_eigenvalue=True, show_pbar=False)
    finally:
        np.linalg.svd = orig


def h_gram(cfg, V):
    nc, kw, img = cfg["nc"], cfg["kw"], cfg["img"]
    nd = len(img)
    ksp, Svals, VH, thresh, crop = _setup(cfg, V, cfg.get("orthonormal", False))
    if not V.symbolic:
        # float replay: the real LAPACK SVD runs on the concrete k-space; the oracle uses an independent SVD of the documented calibration
        # matrix (sliding kernel_width blocks of the calib_width region, one row per block, coils x kernel entries as columns)
        import sigpy as sp
        thresh, crop = 0.02, 0.95
        ksp = np.asarray(ksp) + np.arange(ksp.size).reshape(ksp.shape) * (0.37 - 0.11j)
        cal = sp.resize(ksp, [nc] + [cfg["calib"]] * nd)
        blocks = sp.array_to_blocks(cal, [kw] * nd, [1] * nd)
        mat = blocks.reshape([nc, -1, kw ** nd]).transpose([1, 0, 2]).reshape([-1, nc * kw ** nd])
        _, Sv, VHf = np.linalg.svd(mat, full_matrices=False)
        Svals, VH = list(Sv), VHf
    app = _construct(cfg, V, ksp, Svals, VH, thresh, crop)
    AHA = _gram_array(app)
    smax = Svals[0]
    keep = [k for k in range(len(Svals)) if bool(Svals[k] > thresh * smax)]
    scale = Fraction(int(np.prod(img)), kw ** nd)
    obl = [("gram_array_shape", O.const(list(AHA.shape) == list(img)[::-1] + [nc, nc]))]
    # oracle: a_k[c, r] = centred unitary inverse DFT over the image axes of the kernel zero-padded (centred) to the image size
    imgk = []
    for k in keep:
        ker = np.array(VH[k], dtype=object if V.symbolic else np.complex128).reshape([nc] + [kw] * nd)
        per = []
        for c in range(nc):
            if V.symbolic:
                per.append(_dft_oracle(_center_resize(ker[c], list(img)), list(range(nd)), True, "ortho", True))
            else:
                from props.c05 import _float_ref
                per.append(_float_ref(ker[c], list(img), list(range(nd)), True, "ortho", True))
        imgk.append(per)
    for vox in np.ndindex(*img):
        G = AHA[vox[::-1]]
        for c1 in range(nc):
            for c2 in range(nc):
                want = S.SymK.lift(0) if V.symbolic else 0
                for per in imgk:
                    want = want + per[c1][vox] * np.conj(per[c2][vox])
                obl.append(("gram_voxel%s_%d%d" % ("".join(map(str, vox)), c1, c2), O.eq(G[c1, c2], want * (scale if V.symbolic else float(scale)))))
    if cfg.get("orthonormal"):
        # kernel_width 1, orthonormal singular vectors: Hermitian idempotent => eigenvalues in {0, 1}
        for vox in np.ndindex(*img):
            G = AHA[vox[::-1]]
            GG = G @ G
            tag = "".join(map(str, vox))
            obl.append(("gram_voxel%s_hermitian" % tag, O.eq(G, np.conj(G).T)))
            obl.append(("gram_voxel%s_idempotent" % tag, O.eq(GG, G)))
    return obl


def h_power(cfg, V):
    """inductive step: ANY Hermitian Gram matrices, ANY current vectors -> one real power iteration -> real _output"""
    nc, img = cfg["nc"], cfg["img"]
    nd = len(img)
    ksp, Svals, VH, thresh, crop = _setup(cfg, V, False)
    if V.symbolic:
        app = _construct(cfg, V, ksp, Svals, VH, thresh, crop)
    else:
        app = _construct(cfg, V, np.asarray(ksp) + 0.1, Svals, VH, abs(float(thresh)) % 1 or 0.5, crop)
    AHA = _gram_array(app)
    nvox = cfg.get("nvox", 1)          # voxels with symbolic content (the others get fixed rational data: voxels are independent)
    idx = list(np.ndindex(*img))
    Gs, xs = {}, {}
    for n, vox in enumerate(idx):
        sym = n < nvox
        G = np.zeros((nc, nc), dtype=object if V.symbolic else np.complex128)
        for i in range(nc):
            G[i, i] = V.scalar("g%d_%d%d" % (n, i, i)) if sym else 1 + i + n
            for j in range(i + 1, nc):
                v = V.scalar("g%d_%d%d" % (n, i, j), True) if sym else complex(0.5, -0.25 * (n + 1))
                G[i, j] = v
                G[j, i] = np.conj(v)
        x = V.array("x%d" % n, [nc], True) if sym else np.array([complex(1, n), complex(-0.5, 1)][:nc] + [1] * max(0, nc - 2))
        Gs[vox], xs[vox] = G, x
        AHA[vox[::-1]] = G
        app.mps[vox[::-1]] = np.reshape(x, (nc, 1))
    obl = []
    # the iterate must not vanish (0/0 otherwise): assumed, see OUTSIDE
    ys = {}
    for vox in idx:
        ys[vox] = Gs[vox] @ np.ravel(xs[vox])
        if V.symbolic:
            V.assume(O.not_(O.eq(ys[vox], np.zeros(nc))), "power iterate nonzero")
        elif not np.any(ys[vox]):
            V.ok = False
    app.alg.update()
    mps, eig = app._output()
    eig = np.reshape(eig, img)
    obl.append(("maps_have_kspace_shape", O.const(list(np.shape(mps)) == [nc] + list(img))))
    for vox in idx:
        tag = "voxel%s" % "".join(map(str, vox))
        vec = [mps[(c,) + vox] for c in range(nc)]
        ev = eig[vox]
        if not V.symbolic and not np.all(np.isfinite(np.array(vec, dtype=complex))):
            obl += [("%s_zero_or_unit_norm" % tag, O.const(False)), ("%s_first_coil_real_nonnegative" % tag, O.const(False))]
            continue
        n2 = O.norm2(vec)
        is_zero = O.eq(np.array(vec, dtype=object if V.symbolic else None), np.zeros(nc))
        obl.append(("%s_zero_or_unit_norm" % tag, B.or_(is_zero, O.eq(n2, 1))))
        obl.append(("%s_first_coil_real_nonnegative" % tag, B.and_(O.is_real([vec[0]]), O.ge(vec[0], 0))))
        obl.append(("%s_zero_iff_eigenvalue_at_most_crop" % tag, B.and_(B.implies(O.le(ev, crop), is_zero), B.implies(O.gt(ev, crop), O.eq(n2, 1)))))
        obl.append(("%s_eigenvalue_nonnegative" % tag, O.ge(ev, 0)))
        obl.append(("%s_eigenvalue_is_norm_of_G_x" % tag, O.eq(ev * ev, O.norm2(list(ys[vox])))))
    return obl


HARNESSES = {"gram": h_gram, "power": h_power}


def _field(img):
    return required_N(list(img), ortho=True)


def configs(tier, seed):
    full = tier == "thorough"
    out = []

    def add(h, **kw):
        ident = ":".join("%s=%s" % (k, kw[k]) for k in sorted(kw) if k != "cost")
        kw.update(id="%s:%s" % (h, ident.replace(" ", "")), h=h, max_paths=3000)
        kw.setdefault("field", _field(kw["img"]))
        kw.setdefault("cost", 100)
        out.append(kw)
    for img in ([2, 2], [2, 3], [2, 2, 2]) + (([3, 2],) if full else ()):
        for kw_ in (1, 2):
            if len(img) == 3 and kw_ == 2 and not full:
                continue
            add("gram", img=img, nc=2, calib=2, kw=kw_)
    add("gram", img=[2, 2], nc=2, calib=2, kw=1, orthonormal=True)
    add("gram", img=[2, 3], nc=2, calib=2, kw=1, orthonormal=True)
    add("gram", img=[3, 3], nc=2, calib=3, kw=2, cost=500)      # 4 blocks x 8 columns: a wide calibration matrix with several rows
    if full:
        add("gram", img=[2, 2], nc=3, calib=2, kw=1)
        add("gram", img=[3, 4], nc=2, calib=3, kw=2, cost=800)
    add("power", img=[2, 2], nc=2, calib=2, kw=1, nvox=1, field=8)
    add("power", img=[2, 2], nc=2, calib=2, kw=2, nvox=2, field=8, cost=300)
    if full:
        add("power", img=[2, 2], nc=3, calib=2, kw=1, nvox=1, field=8, cost=500)
    return out
