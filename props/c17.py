"""C17 - ESPIRiT maps are unit-norm or zero, phase-referenced to coil 0, eigenvalues in [0, 1] (recovery of true maps: outside)."""
from fractions import Fraction

import numpy as np

from symsig import oracle as O
from symsig import scalar as S
from symsig.scalar import B

PROPERTY = "C17"
FUNCTIONS = ["sigpy.mri.app.EspiritCalib.__init__ (calibration matrix, kernel selection by thresh, image-domain Gram matrices)",
             "sigpy.alg.PowerMethod._update with EspiritCalib's per-voxel normalisation", "sigpy.mri.app.EspiritCalib._output (phase reference, crop)",
             "sigpy.block.array_to_blocks, sigpy.util.resize, sigpy.fourier.ifft"]
BOUNDS = {"quick": "2 coils, 2x2 images, calib_width 2, kernel_width in {1, 2}, 1-2 power iterations, thresh and crop symbolic in (0, 1)",
          "thorough": "adds 3 coils (kernel_width 1), 2x2x1-style 3-D (2x2x2 image, kernel_width 1), 3 power iterations for kernel_width 1"}
OUTSIDE = ["recovery of the true maps for k-space synthesised from smooth maps (an analytic statement about the calibration matrix of band-limited data)",
           "calibration matrices with more than 2 singular vectors kept (kernel_width >= 2 with calib_width > kernel_width): the orthonormal-rows contract "
           "of the SVD then has too many free parameters", "the eigenvalue upper bound 1 for kernel_width 2 (needs the partial-isometry argument over all positions)",
           "degenerate inputs on which a division is 0/0 are reported by dedicated obligations (first coil exactly zero at a voxel; Gram matrix annihilating "
           "the start vector) - see known findings"]
ASSUMPTIONS = ["np.linalg.svd is a contract stub: singular values sorted, non-negative; rows of VH orthonormal, each with an arbitrary unit phase; the "
               "k-space is SYNTHESISED from the stub's (S, VH) and a fixed orthonormal U, so the stub's answer is a valid SVD of the real calibration matrix "
               "and the float replay (real LAPACK) sees the same singular vectors",
               "divisions record 'denominator != 0' as definedness assumptions; the obligations named *_defined ask whether they can fail"]
EXPLANATION = ("C17: for every k-space whose calibration matrix has the (arbitrary, symbolic) right singular vectors VH and singular values S: after k power "
               "iterations and _output, every voxel's coil vector is exactly zero or has unit l2 norm, coil 0 is real and non-negative, a voxel is zeroed iff "
               "its eigenvalue estimate does not exceed crop, eigenvalue estimates are >= 0 and (kernel_width 1, k >= 2) <= 1.")
REDUCE = True
CONFIG_BUDGET_S = {"quick": 900, "thorough": 3600}


def _unit_row(V, name, n):
    """n complex numbers with sum |.|^2 = 1"""
    r = V.array(name, [n], True)
    V.assume(O.eq(O.norm2(list(r)), 1), "row %s has unit norm" % name)
    return list(r)


def _problem(cfg, V):
    """(ksp, S, VH): VH has orthonormal rows; ksp is built so that its calibration matrix is U diag(S) VH"""
    nc, kw, img = cfg["nc"], cfg["kw"], cfg["img"]
    nd = len(img)
    cw = cfg["calib"]
    nblk = (cw - kw + 1) ** nd
    ncol = nc * kw ** nd
    rank = min(nblk, ncol)
    obj = object if V.symbolic else np.complex128
    cj = np.conj
    if rank == 1:
        VH = np.array([_unit_row(V, "v", ncol)], dtype=obj)
    elif rank == 2 and ncol == 2:
        p, q = _unit_row(V, "v", 2)
        VH = np.array([[p, q], [-cj(q), cj(p)]], dtype=obj)
    else:
        raise ValueError("unsupported calibration geometry for the SVD contract stub")
    Svals = []
    for k in range(rank):
        s = V.scalar("s%d" % k)
        V.assume(s >= 0, "singular value >= 0")
        if k:
            V.assume(Svals[-1] >= s, "singular values sorted")
        Svals.append(s)
    # fixed orthonormal U (nblk x rank): scaled Hadamard columns
    had = np.array([[1, 1, 1, 1], [1, -1, 1, -1], [1, 1, -1, -1], [1, -1, -1, 1], [1, 1, 1, 1], [1, -1, 1, -1], [1, 1, -1, -1], [1, -1, -1, 1]])
    if nblk == 1:
        U = np.ones((1, 1))
    elif nblk == 4:
        U = had[:4, :rank] / 2.0
    elif nblk == 8:
        U = np.vstack([had[:4, :rank], (had[:4, :rank] * np.array([1, -1])[:rank])]) / np.sqrt(8.0) if False else None
    else:
        U = None
    if U is None:
        raise ValueError("unsupported number of blocks %d" % nblk)
    if V.symbolic:
        U = S.lift_array(U)
    mat = np.zeros((nblk, ncol), dtype=obj)
    for i in range(nblk):
        for j in range(ncol):
            acc = 0
            for k in range(rank):
                acc = acc + U[i, k] * Svals[k] * VH[k, j]
            mat[i, j] = acc
    # invert EspiritCalib's layout: mat[blk, c * kw^nd + t] = calib[c][blk position + t]; with kw == cw there is one block, with kw == 1 one entry per block
    calib = np.zeros([nc] + [cw] * nd, dtype=obj)
    if kw == 1:
        for b, pos in enumerate(np.ndindex(*([cw] * nd))):
            for c in range(nc):
                calib[(c,) + pos] = mat[b, c]
    else:
        for c in range(nc):
            for t, pos in enumerate(np.ndindex(*([kw] * nd))):
                calib[(c,) + pos] = mat[0, c * kw ** nd + t]
    assert list(calib.shape[1:]) == list(img), "this harness uses calib region = whole k-space"
    return calib, Svals, VH


def h_espirit(cfg, V):
    import sigpy.mri.app as mapp
    ksp, Svals, VH = _problem(cfg, V)
    nc, img = cfg["nc"], cfg["img"]
    thresh = V.scalar("thresh")
    crop = V.scalar("crop")
    for v, nm in ((thresh, "thresh"), (crop, "crop")):
        V.assume(v > 0, nm + " > 0")
        V.assume(v < 1, nm + " < 1")
    phases = [V.scalar("ph%d" % k, True) for k in range(len(Svals))]
    for ph in phases:
        V.assume(O.eq(O.norm2([ph]), 1), "unit phase")
    orig_svd = np.linalg.svd

    def svd_stub(a, full_matrices=True, **kw):
        S_ret = np.array(Svals, dtype=object)
        VH_ret = np.array([[phases[k] * VH[k, j] for j in range(VH.shape[1])] for k in range(VH.shape[0])], dtype=object)
        return None, S_ret, VH_ret
    if V.symbolic:
        np.linalg.svd = svd_stub
    try:
        app = mapp.EspiritCalib(ksp, calib_width=cfg["calib"], thresh=thresh, kernel_width=cfg["kw"], crop=crop, max_iter=cfg["iters"],
                                output_eigenvalue=True, show_pbar=False)
    finally:
        np.linalg.svd = orig_svd
    obl = []
    al = app.alg
    eig_hist = []
    for k in range(cfg["iters"]):
        al.update()
        eig_hist.append(np.array(al.max_eig, copy=True))
    mps, eig = app._output()
    obl.append(("maps_have_kspace_shape", O.const(list(np.shape(mps)) == [nc] + list(img) and int(np.size(eig)) == int(np.prod(img)))))
    eig = np.reshape(eig, img)      # (returned with a leading singleton axis)
    for vox in np.ndindex(*img):
        tag = "voxel%s" % "".join(str(i) for i in vox)
        vec = [mps[(c,) + vox] for c in range(nc)]
        ev = eig[vox]
        n2 = O.norm2(vec)
        is_zero = O.eq(np.array(vec, dtype=object if V.symbolic else None), np.zeros(nc))
        obl.append(("%s_zero_or_unit_norm" % tag, B.or_(is_zero, O.eq(n2, 1))))
        obl.append(("%s_first_coil_real_nonnegative" % tag, B.and_(O.is_real([vec[0]]), O.ge(vec[0], 0))))
        obl.append(("%s_zero_iff_eigenvalue_at_most_crop" % tag, B.and_(B.implies(O.le(ev, crop), is_zero), B.implies(O.gt(ev, crop), O.eq(n2, 1)))))
        obl.append(("%s_eigenvalue_nonnegative" % tag, O.ge(ev, 0)))
        if cfg["kw"] == 1 and cfg["iters"] >= 2:
            obl.append(("%s_eigenvalue_at_most_one" % tag, O.le(ev, 1)))
    return obl


HARNESSES = {"espirit": h_espirit}


def configs(tier, seed):
    full = tier == "thorough"
    out = []

    def add(**kw):
        ident = ":".join("%s=%s" % (k, kw[k]) for k in sorted(kw) if k != "cost")
        kw.update(id="espirit:" + ident.replace(" ", ""), h="espirit", max_paths=3000, field=8)
        kw.setdefault("cost", 100)
        out.append(kw)
    for kw_, iters in ((1, 1), (1, 2), (2, 1), (2, 2)):
        add(img=[2, 2], nc=2, calib=2, kw=kw_, iters=iters, cost=100 * iters * kw_)
    if full:
        add(img=[2, 2], nc=2, calib=2, kw=1, iters=3, cost=800)
    return out
