"""C05 - fft/ifft are the centred unitary DFT and mutually inverse."""
import itertools
from fractions import Fraction

import numpy as np

from symsig import oracle as O
from symsig import scalar as S
from symsig.algebra import required_N

PROPERTY = "C05"
FUNCTIONS = ["sigpy.fourier.fft", "sigpy.fourier.ifft", "sigpy.fourier._fftc", "sigpy.fourier._ifftc", "sigpy.util.resize",
             "sigpy.util._normalize_axes", "sigpy.linop.FFT/IFFT (adjoint, normal)"]
BOUNDS = {"quick": "1-3 dims, transformed axis lengths 1..6 (product of distinct lengths keeps the field degree <= 16), all axes subsets incl. "
                   "negative/unsorted for <= 2 dims, center in {T,F}, norm in {ortho, None}, oshape larger/smaller/mixed (centred)",
          "thorough": "adds 3-4 dims, all axes subsets, oshape grids"}
OUTSIDE = ["axis lengths > 6", "float rounding (the DFT is exact in Q(zeta_N))", "dtype preservation is value independent: one concrete call per "
           "configuration, reported as a non-solver side check"]
ASSUMPTIONS = ["np.fft.fftn/ifftn compute the DFT as documented (replaced by the exact DFT over Q(zeta_N) for object arrays); "
               "np.fft.fftshift/ifftshift, np.roll, resize are NumPy's/sigpy's own code on the symbolic arrays"]
EXPLANATION = ("C05: fft/ifft equal the explicit DFT matrix with origin n//2 (0 when not centred) applied to the centre-padded/cropped "
               "input; ifft(fft(x)) = x and ||fft x|| = ||x|| for ortho; FFT/IFFT linops adjoint and N = I.  Oracle: independent DFT "
               "sum in the same exact field.")


def _center_resize(x, oshape):
    """independent oracle: index n//2 of the input aligned with index m//2 of the output"""
    out = np.zeros(oshape, dtype=object)
    for idx in np.ndindex(*x.shape):
        o = tuple(i - n // 2 + m // 2 for i, n, m in zip(idx, x.shape, oshape))
        if all(0 <= oi < m for oi, m in zip(o, oshape)):
            out[o] = x[idx]
    return out


def _end_resize(x, oshape):
    out = np.zeros(oshape, dtype=object)
    for idx in np.ndindex(*x.shape):
        if all(i < m for i, m in zip(idx, oshape)):
            out[idx] = x[idx]
    return out


def _dft_oracle(x, axes, center, norm, inverse):
    F = S.FIELD
    x = np.asarray(x, dtype=object)
    for ax in axes:
        n = x.shape[ax]
        c = n // 2 if center else 0
        sgn = 1 if inverse else -1
        xm = np.moveaxis(x, ax, 0)
        out = np.empty(xm.shape, dtype=object)
        if norm == "ortho":
            sc = S.SymK.constvec([v / n for v in F.sqrt_int(n)])
        elif inverse:
            sc = S.SymK.lift(Fraction(1, n))
        else:
            sc = S.SymK.lift(1)
        for k in range(n):
            for rest in np.ndindex(*xm.shape[1:]):
                acc = S.SymK.lift(0)
                for j in range(n):
                    e = (sgn * (k - c) * (j - c)) % n if n > 1 else 0
                    tw = S.SymK.constvec(F.zeta(e, n)) if n > 1 else S.SymK.lift(1)
                    acc = acc + S.SymK.lift(xm[(j,) + rest]) * tw
                out[(k,) + rest] = acc * sc
        x = np.moveaxis(out, 0, ax)
    return x


def h_fft(cfg, V):
    import sigpy as sp
    from sigpy import fourier
    shape, axes, center, norm, oshape = cfg["shape"], cfg["axes"], cfg["center"], cfg["norm"], cfg["oshape"]
    x = V.array("x", shape)
    nd = len(shape)
    ax_norm = list(range(nd)) if axes is None else sorted(set(a % nd for a in axes))
    obl = []
    for inverse, fn in ((False, fourier.fft), (True, fourier.ifft)):
        tag = "ifft" if inverse else "fft"
        y = fn(x, oshape=oshape, axes=axes, center=center, norm=norm)
        if V.symbolic:
            if oshape is None:
                xin = x
            elif center:
                xin = _center_resize(x, oshape)
            else:
                # numpy semantics for s with axes: crop / zero-pad at the end of the transformed axes
                xin = _end_resize(x, oshape)
            ref = _dft_oracle(xin, ax_norm, center, norm, inverse)
        else:
            ref = _float_ref(x, oshape, ax_norm, center, norm, inverse)
        obl.append((tag + "_is_dft_matrix", O.eq(y, ref)))
        if oshape is None:
            other = fourier.fft if inverse else fourier.ifft
            back = other(y, axes=axes, center=center, norm=norm)
            if norm == "ortho":
                obl.append((tag + "_inverse_roundtrip", O.eq(back, x)))
                obl.append((tag + "_norm_preserved", O.eq(O.norm2(y), O.norm2(x))))
            else:
                # unnormalised pair: fft then ifft(norm=None) is still the identity (1/n in the inverse)
                obl.append((tag + "_inverse_roundtrip", O.eq(back, x)))
    if oshape is None and norm == "ortho":
        A = sp.linop.FFT(shape, axes=axes, center=center)
        z = V.array("z", shape)
        obl.append(("FFT_adjoint", O.eq(O.vdot(A(x), z), O.vdot(x, A.H(z)))))
        obl.append(("FFT_normal_identity", O.eq(A.N(x), A.H(A(x)))))
        Bm = sp.linop.IFFT(shape, axes=axes, center=center)
        obl.append(("IFFT_adjoint", O.eq(O.vdot(Bm(x), z), O.vdot(x, Bm.H(z)))))
        obl.append(("IFFT_normal_identity", O.eq(Bm.N(x), Bm.H(Bm(x)))))
    if not V.symbolic or cfg.get("dtype_check", True):
        obl.append(("dtype_preserved", O.const(_dtype_ok(shape, axes, center, norm, oshape))))
    return obl


def _float_ref(x, oshape, axes, center, norm, inverse):
    """explicit DFT-matrix reference for the float replay"""
    x = np.asarray(x, dtype=np.complex128)
    if oshape is not None:
        out = np.zeros(oshape, dtype=np.complex128)
        for idx in np.ndindex(*x.shape):
            if center:
                o = tuple(i - n // 2 + m // 2 for i, n, m in zip(idx, x.shape, oshape))
            else:
                o = idx
            if all(0 <= oi < m for oi, m in zip(o, oshape)):
                out[o] = x[idx]
        x = out
    for ax in axes:
        n = x.shape[ax]
        c = n // 2 if center else 0
        k = np.arange(n) - c
        sgn = 1 if inverse else -1
        M = np.exp(sgn * 2j * np.pi * np.outer(k, k) / n)
        if norm == "ortho":
            M = M / np.sqrt(n)
        elif inverse:
            M = M / n
        x = np.moveaxis(np.tensordot(M, np.moveaxis(x, ax, 0), axes=(1, 0)), 0, ax)
    return x


def _dtype_ok(shape, axes, center, norm, oshape):
    """value-independent side check (concrete call, real NumPy FFT): complex dtypes are preserved, real input becomes complex"""
    from sigpy import fourier
    from symsig import npenv
    ok = True
    for dt in (np.complex64, np.complex128):
        x = np.ones(shape, dtype=dt)
        for fn in (fourier.fft, fourier.ifft):
            ok = ok and fn(x, oshape=oshape, axes=axes, center=center, norm=norm).dtype == dt
    ok = ok and np.iscomplexobj(fourier.fft(np.ones(shape, dtype=np.float32), oshape=oshape, axes=axes, center=center, norm=norm))
    return bool(ok)


HARNESSES = {"fft": h_fft}


def _axes_subsets(nd, full):
    subs = [None]
    for r in range(1, nd + 1):
        for c in itertools.combinations(range(nd), r):
            subs.append(list(c))
    if full or nd <= 2:
        for r in range(1, nd + 1):
            for c in itertools.combinations(range(nd), r):
                subs.append([a - nd for a in c])          # negative
                if r > 1:
                    subs.append(list(c)[::-1])            # unsorted
                    subs.append([c[0], c[-1] - nd] if r == 2 else list(c)[::-1])
    out, seen = [], set()
    for s in subs:
        k = str(s)
        if k not in seen:
            seen.add(k)
            out.append(s)
    return out


def _deg(N):
    from symsig.algebra import cyclotomic
    return len(cyclotomic(N)) - 1


def configs(tier, seed):
    out = []
    full = tier == "thorough"
    shapes1 = [[n] for n in range(1, 7)]
    shapes2 = [[2, 3], [3, 2], [3, 3], [2, 4], [1, 3], [4, 1], [3, 4], [2, 5], [5, 2], [2, 6]] if full else [[2, 3], [3, 2], [1, 3], [3, 4]]
    shapes3 = [[2, 3, 2], [2, 2, 3], [3, 2, 4], [1, 3, 2]] if full else [[2, 3, 2]]
    shapes4 = [[2, 1, 3, 2], [2, 2, 2, 3]] if full else []
    for shape in shapes1 + shapes2 + shapes3 + shapes4:
        nd = len(shape)
        for axes in _axes_subsets(nd, full):
            ax = list(range(nd)) if axes is None else sorted(set(a % nd for a in axes))
            for center in (True, False):
                for norm in ("ortho", None):
                    oshapes = [None]
                    if center or True:
                        cand = []
                        if nd == 1:
                            cand = [[shape[0] + 1], [shape[0] + 2], [max(1, shape[0] - 1)], [max(1, shape[0] - 2)]]
                        elif nd == 2:
                            cand = [[shape[0] + 1, max(1, shape[1] - 1)], [max(1, shape[0] - 1), shape[1] + 2]]
                            if full:
                                cand += [[shape[0] + 2, shape[1] + 1], [max(1, shape[0] - 1), max(1, shape[1] - 1)]]
                        elif full and nd == 3:
                            cand = [[shape[0] + 1, max(1, shape[1] - 1), shape[2]]]
                        if not center:
                            # non-centred: numpy's s= applies to the transformed axes only; keep other axes' lengths
                            cand = [[c if i in ax else shape[i] for i, c in enumerate(cd)] for cd in cand]
                            cand = cand[:2] if axes is not None else []
                        oshapes += [c for c in cand if c != shape and all(d <= 6 for d in c)]
                    seen = set()
                    for osh in oshapes:
                        if str(osh) in seen:
                            continue
                        seen.add(str(osh))
                        eff = osh if osh is not None else shape
                        lens = [eff[a] for a in ax]
                        N = required_N(lens, ortho=(norm == "ortho"))
                        if _deg(N) > 16:
                            continue
                        if not full and osh is not None and nd > 2:
                            continue
                        if not center and osh is not None:
                            continue     # the property fixes the output-shape semantics only for centred transforms
                        out.append({"id": "fft:%s:axes=%s:center=%s:norm=%s:oshape=%s" % (shape, axes, center, norm, osh), "h": "fft",
                                    "shape": shape, "axes": axes, "center": center, "norm": norm, "oshape": osh, "field": N,
                                    "cost": _deg(N) * int(np.prod(eff))})
    return out
