import symx, time
from symx import *
import numpy as np
from sigpy.mri.rf import trajgrad
install()
# Sym needs: sqrt via np.sqrt -> .sqrt() ok; np.ceil -> __ceil__; np.abs -> __abs__; np.max on list of Sym -> comparisons
def run(fn, bound_ramp=3, bound_flat=4):
    t0=time.time(); npaths=0; viol=[]; excs=[]
    def body():
        ctx=Ctx.cur
        area=symreal("area"); gmax=symreal("gmax"); dgdt=symreal("dgdt"); dt=symreal("dt")
        for v in (area,gmax,dgdt,dt): ctx.add(v.re>0)
        # bounds to keep counts small: gmax/(dgdt*dt) <= bound_ramp ; area/(gmax*dt) <= bound_flat
        ctx.add(gmax.re <= bound_ramp*dgdt.re*dt.re); ctx.add(area.re <= bound_flat*gmax.re*dt.re)
        trap, ramppts = fn(area,gmax,dgdt,dt)
        return (area,gmax,dgdt,dt,trap,ramppts)
    for ctx,res,exc in explore(body, timeout_ms=10000):
        npaths+=1
        if exc is not None:
            excs.append((ctx.decisions, repr(exc)[:120])); continue
        area,gmax,dgdt,dt,trap,ramppts = res
        w = [Sym.lift(v) for v in np.asarray(trap,dtype=object).ravel()]
        props = {"start0": w[0].re != 0, "end0": w[-1].re != 0,
                 "area": sum((v for v in w), Sym(0)).re*dt.re != area.re,
                 "amp": z3.Or([z3.Or(v.re > gmax.re, v.re < -gmax.re) for v in w]),
                 "slew": z3.Or([z3.Or(b.re-a.re > dgdt.re*dt.re, a.re-b.re > dgdt.re*dt.re) for a,b in zip(w[:-1],w[1:])])}
        for name,neg in props.items():
            s=z3.Solver(); s.set("timeout",20000)
            for c in ctx.pc: s.add(c)
            s.add(neg); r=str(s.check())
            if r!="unsat": viol.append((name,r,len(w),ramppts, ctx.decisions, s.model() if r=="sat" else None))
    print(fn.__name__, "paths",npaths,"excs",len(excs),"non-unsat",len(viol),"%.1fs"%(time.time()-t0))
    for e in excs[:5]: print("  EXC",e)
    for v in viol[:5]: print("  V",v)
run(trajgrad.trap_grad)
run(trajgrad.min_trap_grad)
