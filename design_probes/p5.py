import os; os.environ["NUMBA_DISABLE_JIT"]="1"
import time, numpy as np
from fractions import Fraction
from polyq import *
import sigpy as sp
from sigpy import alg

class R:
    __slots__=("r",)
    def __init__(s, r): s.r = r
    @staticmethod
    def lift(v):
        if isinstance(v, R): return v
        if isinstance(v,(int,float,np.integer,np.floating,Fraction)): return R(Rat(Poly.const(Fraction(v))))
        return NotImplemented
    def __add__(s,o):
        o=R.lift(o)
        return o if o is NotImplemented else R(s.r+o.r)
    __radd__=__add__
    def __sub__(s,o):
        o=R.lift(o); return o if o is NotImplemented else R(s.r-o.r)
    def __rsub__(s,o):
        o=R.lift(o); return o if o is NotImplemented else R(o.r-s.r)
    def __mul__(s,o):
        o=R.lift(o); return o if o is NotImplemented else R(s.r*o.r)
    __rmul__=__mul__
    def __neg__(s): return R(-s.r)
    def __truediv__(s,o):
        o=R.lift(o); return o if o is NotImplemented else R(s.r*o.r.inv())
    def __rtruediv__(s,o):
        o=R.lift(o); return R(o.r*s.r.inv())
    def conjugate(s): return s
    @property
    def real(s): return s
    def item(s): return s
    def __pow__(s,p):
        if p==0.5: return R(Rat(Poly.var("sq%d"%id(s))))  # dummy (resid only)
        raise TypeError
    def __le__(s,o): return False   # forced decisions for timing probe
    def __lt__(s,o): return False
    def __ge__(s,o): return True
    def __gt__(s,o): return True

def V(name): return R(Rat(Poly.var(name)))
_vd=np.vdot
np.vdot = lambda a,b: sum((x*y for x,y in zip(a.ravel(),b.ravel())), R.lift(0)) if a.dtype==object else _vd(a,b)
_re=np.real
np.real = lambda x: x if isinstance(x,R) else _re(x)

def run(n, symA, iters):
    t=time.time()
    if symA:
        # A = L L^T + I with symbolic lower-triangular L  (PD by construction)
        L = np.zeros((n,n),dtype=object)
        for i in range(n):
            for j in range(i+1): L[i,j]=V("l%d%d"%(i,j))
        for i in range(n):
            for j in range(i+1,n): L[i,j]=R.lift(0)
        A = L@L.T + np.eye(n).astype(int).astype(object)
    else:
        rng=np.random.default_rng(0); M=rng.integers(-3,4,size=(n,n)); A=(M.T@M+np.eye(n,dtype=int)).astype(object)
        for i in np.ndindex(n,n): A[i]=R.lift(int(A[i]))
    b=np.array([V("b%d"%i) for i in range(n)],dtype=object); x=np.array([V("x%d"%i) for i in range(n)],dtype=object)
    x0=x.copy(); r0=b-A@x0
    cg=alg.ConjugateGradient(lambda v:A@v,b,x,max_iter=iters+1)
    for k in range(1,iters+1):
        cg.update()
        rk=b-A@cg.x
        tr = all((u-v).r.is_zero() for u,v in zip(cg.r,rk))
        v=r0; orth=[]
        for j in range(k):
            orth.append(np.vdot(v,rk).r.is_zero()); v=A@v
        sz = max(len(e.r.n.t) for e in cg.x)
        print("n=%d symA=%s k=%d tracked=%s krylov=%s  max terms=%d  t=%.1fs"%(n,symA,k,tr,orth,sz,time.time()-t), flush=True)
run(2,False,2); run(3,False,3); run(2,True,2)
