import sigstub
from symnp0 import *
import sigpy as sp, time
from sigpy import linop
def adj_check(A, name):
    t=time.time()
    x = sym("x", A.ishape); y = sym("y", A.oshape)
    Ax = A(x); AHy = A.H(y)
    d = vdot(y, Ax) - vdot(AHy, x)
    t1=time.time()-t
    r,_ = prove_zero(d)
    print(name, "adjoint:", r, "build %.2fs total %.2fs"%(t1, time.time()-t))
f = sym("f", [2,2,2,3])   # c_o, c_i, n1, n2
adj_check(linop.ConvolveData([2,2,3,4], f, multi_channel=True), "ConvData mc 2D symbolic filter")
adj_check(linop.ConvolveData([2,2,3,4], f, multi_channel=True, mode='valid', strides=[1,2]), "ConvData mc 2D valid")
d = sym("d", [2,2,3,4])
adj_check(linop.ConvolveFilter([2,2,2,3], d, multi_channel=True), "ConvFilter mc 2D symbolic data")
m = sym("m", [3,4,4])
adj_check(linop.MatMul([3,4,2], m), "MatMul batched sym")
adj_check(linop.MatMul([1,4,2], m), "MatMul bcast sym")
