"""Probe engine: symbolic complex scalars (re, im z3 reals) + path forking + aux vars for div/sqrt."""
import os
os.environ.setdefault("NUMBA_DISABLE_JIT", "1")
import math
import numpy as np
import z3
from fractions import Fraction

# ---------------------------------------------------------------- context


class Abort(BaseException):
    pass


class Ctx:
    cur = None

    def __init__(self, prefix, timeout_ms=20000):
        self.prefix = list(prefix)
        self.pos = 0
        self.decisions = []      # (bool taken, was_forced)
        self.pc = []             # path constraints (z3 bools) incl. aux definitions
        self.pending = []        # alternative prefixes to explore
        self.solver = z3.Solver()
        self.solver.set("timeout", timeout_ms)
        self.naux = 0
        self.defined = []
        self.bt = 3000
        self.nqueries = 0

    def add(self, c):
        self.pc.append(c)
        self.solver.add(c)

    def assume_defined(self, c):
        c = z3.simplify(c)
        if z3.is_true(c):
            return
        self.defined.append(c)
        self.add(c)

    def fresh(self, tag="aux"):
        self.naux += 1
        return z3.Real("%s!%d" % (tag, self.naux))

    def feasible(self, c):
        self.nqueries += 1
        self.solver.push()
        self.solver.add(c)
        r = self.solver.check()
        self.solver.pop()
        return str(r)  # sat / unsat / unknown

    def branch(self, cond):
        """decide a symbolic bool; fork"""
        cond = z3.simplify(cond)
        if z3.is_true(cond):
            return True
        if z3.is_false(cond):
            return False
        if self.pos < len(self.prefix):
            take = self.prefix[self.pos]
            self.pos += 1
            self.decisions.append(take)
            self.add(cond if take else z3.Not(cond))
            return take
        self.solver.set("timeout", self.bt)
        ft = self.feasible(cond)
        ff = self.feasible(z3.Not(cond))
        if ft == "unknown":
            ft = "sat"
        if ff == "unknown":
            ff = "sat"
        if ft == "sat" and ff == "sat":
            self.pending.append(self.decisions + [False])
            take = True
        elif ft == "sat":
            take = True
        elif ff == "sat":
            take = False
        else:
            raise Abort("infeasible path")
        self.pos += 1
        self.decisions.append(take)
        self.add(cond if take else z3.Not(cond))
        return take


def explore(fn, max_paths=10000, timeout_ms=20000):
    """run fn() over all feasible paths; yields (ctx, result or exception)"""
    work = [[]]
    n = 0
    while work:
        prefix = work.pop()
        ctx = Ctx(prefix, timeout_ms)
        Ctx.cur = ctx
        try:
            res = fn()
            exc = None
        except Abort as e:
            res, exc = None, e
        except Exception as e:  # real-code exception on this path
            res, exc = None, e
        finally:
            Ctx.cur = None
        work.extend(ctx.pending)
        n += 1
        yield ctx, res, exc
        if n >= max_paths:
            raise RuntimeError("path budget")


# ---------------------------------------------------------------- scalars

def _q(v):
    if isinstance(v, (bool, np.bool_)):
        return z3.RealVal(int(v))
    if isinstance(v, (int, np.integer)):
        return z3.RealVal(int(v))
    if isinstance(v, (float, np.floating)):
        if not math.isfinite(v):
            raise ValueError("non-finite concrete value in symbolic arithmetic: %r" % v)
        f = Fraction(float(v))
        return z3.Q(f.numerator, f.denominator)
    if isinstance(v, Fraction):
        return z3.Q(v.numerator, v.denominator)
    raise TypeError(type(v))


ZERO = z3.RealVal(0)


def _isz(e):
    return z3.is_rational_value(e) and e.numerator_as_long() == 0


class SymBool:
    __slots__ = ("e",)

    def __init__(self, e):
        self.e = e

    def __bool__(self):
        return Ctx.cur.branch(self.e)

    def __and__(self, o):
        return SymBool(z3.And(self.e, _b(o)))
    __rand__ = __and__

    def __or__(self, o):
        return SymBool(z3.Or(self.e, _b(o)))
    __ror__ = __or__

    def __invert__(self):
        return SymBool(z3.Not(self.e))

    # arithmetic use of masks: bool -> 0/1  (forces a fork; simple)
    def _num(self):
        return 1 if bool(self) else 0

    def __mul__(self, o):
        return self._num() * o
    __rmul__ = __mul__

    def __add__(self, o):
        return self._num() + o
    __radd__ = __add__

    def __rsub__(self, o):
        return o - self._num()

    def __sub__(self, o):
        return self._num() - o


def _b(o):
    if isinstance(o, SymBool):
        return o.e
    return z3.BoolVal(bool(o))


class Sym:
    """complex symbolic scalar"""
    __slots__ = ("re", "im")

    def __init__(self, re, im=None):
        self.re = re if z3.is_expr(re) else _q(re)
        self.im = ZERO if im is None else (im if z3.is_expr(im) else _q(im))

    @staticmethod
    def lift(v):
        if isinstance(v, Sym):
            return v
        if isinstance(v, SymBool):
            return Sym(v._num())
        if isinstance(v, (complex, np.complexfloating)):
            return Sym(_q(v.real), _q(v.imag))
        if isinstance(v, (bool, int, float, np.bool_, np.integer, np.floating, Fraction)):
            return Sym(_q(v))
        return NotImplemented

    def isreal(self):
        return _isz(z3.simplify(self.im))

    def _need_real(self, what):
        if not self.isreal():
            # im must be provably zero on this path
            if Ctx.cur.feasible(self.im != 0) != "unsat":
                raise TypeError("%s of a complex symbolic value" % what)
        return self.re

    # -- arithmetic
    def __add__(self, o):
        o = Sym.lift(o)
        if o is NotImplemented:
            return o
        return Sym(self.re + o.re, self.im + o.im)
    __radd__ = __add__

    def __sub__(self, o):
        o = Sym.lift(o)
        if o is NotImplemented:
            return o
        return Sym(self.re - o.re, self.im - o.im)

    def __rsub__(self, o):
        o = Sym.lift(o)
        if o is NotImplemented:
            return o
        return o - self

    def __mul__(self, o):
        o = Sym.lift(o)
        if o is NotImplemented:
            return o
        if _isz(self.im) and _isz(o.im):
            return Sym(self.re * o.re)
        return Sym(self.re * o.re - self.im * o.im, self.re * o.im + self.im * o.re)
    __rmul__ = __mul__

    def __neg__(self):
        return Sym(-self.re, -self.im)

    def __pos__(self):
        return self

    def __truediv__(self, o):
        o = Sym.lift(o)
        if o is NotImplemented:
            return o
        ctx = Ctx.cur
        d = z3.simplify(o.re * o.re + o.im * o.im)
        # division by zero -> the real code would produce inf/nan (numpy) or raise (python)
        ctx.assume_defined(d != 0)
        if _isz(o.im):
            if z3.is_rational_value(z3.simplify(o.re)):
                return Sym(self.re / o.re, self.im / o.re)
            qr = ctx.fresh("q")
            ctx.add(qr * o.re == self.re)
            if _isz(self.im):
                return Sym(qr)
            qi = ctx.fresh("q")
            ctx.add(qi * o.re == self.im)
            return Sym(qr, qi)
        num = self * o.conjugate()
        return num / Sym(d)

    def __rtruediv__(self, o):
        o = Sym.lift(o)
        if o is NotImplemented:
            return o
        return o / self

    def __pow__(self, p):
        if isinstance(p, Sym):
            raise TypeError("symbolic exponent")
        if isinstance(p, (int, np.integer)) or (isinstance(p, float) and p == int(p)):
            p = int(p)
            if p < 0:
                return 1 / (self ** (-p))
            r = Sym(1)
            for _ in range(p):
                r = r * self
            return r
        if p == 0.5:
            return self.sqrt()
        if p == -0.5:
            return 1 / self.sqrt()
        raise TypeError("unsupported power %r" % (p,))

    def sqrt(self):
        v = self._need_real("sqrt")
        ctx = Ctx.cur
        ctx.assume_defined(v >= 0)
        s = ctx.fresh("s")
        ctx.add(s >= 0, s * s == v) if False else (ctx.add(s >= 0), ctx.add(s * s == v))
        return Sym(s)

    def conjugate(self):
        return Sym(self.re, -self.im)
    conj = conjugate

    @property
    def real(self):
        return Sym(self.re)

    @property
    def imag(self):
        return Sym(self.im)

    def __abs__(self):
        if _isz(z3.simplify(self.im)):
            if SymBool(self.re >= 0):
                return Sym(self.re)
            return Sym(-self.re)
        return Sym(self.re * self.re + self.im * self.im).sqrt()

    def item(self):
        return self

    # -- comparisons
    def _cmp(self, o, op):
        o = Sym.lift(o)
        if o is NotImplemented:
            return o
        a = self._need_real("ordering")
        b = o._need_real("ordering")
        return SymBool(op(a, b))

    def __lt__(self, o):
        return self._cmp(o, lambda a, b: a < b)

    def __le__(self, o):
        return self._cmp(o, lambda a, b: a <= b)

    def __gt__(self, o):
        return self._cmp(o, lambda a, b: a > b)

    def __ge__(self, o):
        return self._cmp(o, lambda a, b: a >= b)

    def __eq__(self, o):
        o = Sym.lift(o)
        if o is NotImplemented:
            return o
        return SymBool(z3.And(self.re == o.re, self.im == o.im))

    def __ne__(self, o):
        o = Sym.lift(o)
        if o is NotImplemented:
            return o
        return SymBool(z3.Or(self.re != o.re, self.im != o.im))

    __hash__ = None

    def __ceil__(self):
        return self._round(True)

    def __floor__(self):
        return self._round(False)

    def _round(self, up):
        v = self._need_real("ceil/floor")
        ctx = Ctx.cur
        # enumerate integer values by forking: find a feasible k, fork on v in (k-1,k] etc.
        k = 0
        # model-guided: ask solver for a model to get a candidate
        s = ctx.solver
        assert str(s.check()) == "sat"
        m = s.model()
        val = m.eval(v, model_completion=True)
        fr = Fraction(val.numerator_as_long(), val.denominator_as_long()) if z3.is_rational_value(val) else Fraction(val.approx(20).as_fraction())
        k = math.ceil(fr) if up else math.floor(fr)
        lo = -1000
        # fork: is ceil(v)==k ?  else recurse on the alternative side
        while True:
            cond = z3.And(v > k - 1, v <= k) if up else z3.And(v >= k, v < k + 1)
            if SymBool(cond):
                return k
            # pick new candidate from a model of the current path
            assert str(s.check()) == "sat"
            m = s.model()
            val = m.eval(v, model_completion=True)
            fr = Fraction(val.numerator_as_long(), val.denominator_as_long()) if z3.is_rational_value(val) else Fraction(val.approx(20).as_fraction())
            k = math.ceil(fr) if up else math.floor(fr)

    def __repr__(self):
        return "Sym(%s, %s)" % (z3.simplify(self.re), z3.simplify(self.im))


def symarr(name, shape, cplx=True):
    a = np.empty(shape, dtype=object)
    for idx in np.ndindex(*shape):
        tag = name + "".join("_%d" % i for i in idx)
        a[idx] = Sym(z3.Real(tag + "r"), z3.Real(tag + "i") if cplx else None)
    return a


def symreal(name):
    return Sym(z3.Real(name))


def vdot(a, b):
    s = Sym(0)
    for x, y in zip(np.asarray(a, dtype=object).ravel(), np.asarray(b, dtype=object).ravel()):
        s = s + Sym.lift(x).conjugate() * Sym.lift(y)
    return s


def install():
    """patch numpy entry points that cannot handle object dtype"""
    _vdot = np.vdot

    def vd(a, b):
        if getattr(a, "dtype", None) == object or getattr(b, "dtype", None) == object:
            return vdot(a, b)
        return _vdot(a, b)
    np.vdot = vd
    _norm = np.linalg.norm

    def norm(x, ord=None, axis=None, keepdims=False):
        if getattr(x, "dtype", None) == object:
            assert axis is None
            if ord is None or ord == 2:
                s = Sym(0)
                for v in x.ravel():
                    v = Sym.lift(v)
                    s = s + Sym(v.re * v.re + v.im * v.im)
                return s.sqrt()
            if ord == 1:
                s = Sym(0)
                for v in x.ravel():
                    s = s + abs(Sym.lift(v))
                return s
            raise NotImplementedError
        return _norm(x, ord=ord, axis=axis, keepdims=keepdims)
    np.linalg.norm = norm
    _real = np.real

    def real(x):
        if isinstance(x, Sym):
            return x.real
        return _real(x)
    np.real = real
    _iss = np.isscalar

    def isscalar(x):
        return isinstance(x, Sym) or _iss(x)
    np.isscalar = isscalar
