import os; os.environ["NUMBA_DISABLE_JIT"]="1"
import numpy as np, math
import sigpy as sp
from sigpy import thresh, interp, block
print(type(thresh._soft_thresh), hasattr(thresh._soft_thresh,'py_func'), [a for a in dir(thresh._soft_thresh) if 'py' in a or 'disp' in a.lower()][:10])
print(type(interp._spline_kernel), type(block._array_to_blocks1))
class S:
    def __init__(s,v): s.v=v
    def sqrt(s): print("sqrt called"); return S(s.v**0.5)
    def cos(s): print("cos called"); return S(math.cos(s.v))
    def exp(s): print("exp called"); return S(math.exp(s.v))
    def __ceil__(s): print("ceil called"); return math.ceil(s.v)
    def __floor__(s): print("floor called"); return math.floor(s.v)
    def __abs__(s): print("abs called"); return S(abs(s.v))
    def conjugate(s): print("conj called"); return s
    def __lt__(s,o): print("lt called"); return s.v < (o.v if isinstance(o,S) else o)
    def __gt__(s,o): print("gt called"); return s.v > (o.v if isinstance(o,S) else o)
    def __mul__(s,o): return S(s.v*(o.v if isinstance(o,S) else o))
    __rmul__=__mul__
    def __add__(s,o): return S(s.v+(o.v if isinstance(o,S) else o))
    __radd__=__add__
    def __repr__(s): return "S(%r)"%s.v
x=S(2.5)
for f in [np.sqrt,np.cos,np.exp,np.ceil,np.floor,np.abs,np.conj]:
    try: print(f.__name__, f(x))
    except Exception as e: print(f.__name__, "ERR", e)
a=np.array([S(3.),S(1.),S(2.)],dtype=object)
print("sort", np.sort(a)); print("clip", np.clip(a,1.5,2.5)); print("max", np.max(a)); print("cumsum", np.cumsum(a)); print("argmax", np.argmax(a))
print("a<2:", a<2)
try: print("angle", np.angle(x))
except Exception as e: print("angle ERR", e)
try: print("real", np.real(x), np.real(a))
except Exception as e: print("real ERR", e)
print("linspace", np.linspace(0,3,4)/3*x)
print(np.maximum(a, 2))
