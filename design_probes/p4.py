import symx, time
from symx import *
import sigpy as sp
from sigpy import alg
install()

def run(n, cplx, symA, precond=False):
    t0=time.time()
    stats = dict(paths=0, q=0, res=[])
    def body():
        ctx = Ctx.cur
        if symA:
            # A = L L^H + eps? simpler: symbolic Hermitian with PD constraints for n=2
            a = symreal("a"); c = symreal("c"); br = z3.Real("br"); bi = z3.Real("bi") if cplx else z3.RealVal(0)
            off = Sym(br, bi)
            A = np.empty((2,2), dtype=object); A[0,0]=a; A[1,1]=c; A[0,1]=off; A[1,0]=off.conjugate()
            ctx.add(a.re > 0); ctx.add(a.re*c.re - (br*br+bi*bi) > 0)
        else:
            rng = np.random.default_rng(1); M = rng.integers(-3,4,size=(n,n)) + (1j*rng.integers(-3,4,size=(n,n)) if cplx else 0)
            A = (M.conj().T@M + np.eye(n)).astype(object)
            for i in np.ndindex(n,n): A[i] = Sym.lift(complex(A[i]) if cplx else float(np.real(A[i])))
        b = symarr("b", (n,), cplx); x = symarr("x", (n,), cplx)
        x0 = x.copy()
        Afn = lambda v: A @ v
        P = None
        if precond:
            d = np.array([1/ (A[i,i]) for i in range(n)], dtype=object)
            P = lambda v: d*v
        cg = alg.ConjugateGradient(Afn, b, x, P=P, max_iter=n+1)
        r0 = b - A@x0
        checks = []
        for k in range(1, n+1):
            if cg.done(): break
            cg.update()
            rk = b - A@cg.x
            # tracked residual
            checks.append(("r_tracked_%d"%k, z3.Or([z3.Or(u.re!=v.re, u.im!=v.im) for u,v in zip(cg.r, rk)])))
            # Krylov optimality: r_k orthogonal to K_k = span{r0, A r0, ...}  (unpreconditioned) ; precond: r_k ⟂ (PA)^j P r0
            v = r0 if P is None else P(r0)
            for j in range(k):
                ip = vdot(v, rk)
                checks.append(("krylov_%d_%d"%(k,j), z3.Or(ip.re!=0, ip.im!=0)))
                v = A@v if P is None else P(A@v)
            assert cg.x is x
        out=[]
        for name, neg in checks:
            s = z3.Solver(); s.set("timeout", 30000)
            for c_ in ctx.pc: s.add(c_)
            s.add(neg); t=time.time(); r=s.check(); out.append((name, str(r), round(time.time()-t,2)))
        return out
    for ctx, res, exc in explore(body):
        stats['paths']+=1; stats['q']+=ctx.nqueries
        print("  path", ctx.decisions, "exc" if exc else "", repr(exc)[:100] if exc else res)
    print("n=%d cplx=%s symA=%s precond=%s paths=%d  %.1fs"%(n,cplx,symA,precond,stats['paths'],time.time()-t0))

run(2, False, False)
#run(2, False, True)
#run(2, True, False)
#run(3, False, False)
