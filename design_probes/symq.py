"""Probe engine: symbolic complex scalars (re, im z3 reals) + path forking + aux vars for div/sqrt."""
import os
os.environ.setdefault("NUMBA_DISABLE_JIT", "1")
import math
import numpy as np
import z3
from fractions import Fraction

# ---------------------------------------------------------------- context


class Abort(BaseException):
    pass


class Ctx:
    cur = None

    def __init__(self, prefix, timeout_ms=20000):
        self.prefix = list(prefix)
        self.pos = 0
        self.decisions = []      # (bool taken, was_forced)
        self.pc = []             # path constraints (z3 bools) incl. aux definitions
        self.pending = []        # alternative prefixes to explore
        self.solver = z3.Solver()
        self.solver.set("timeout", timeout_ms)
        self.naux = 0
        self.defined = []
        self.bt = 3000
        self.nqueries = 0

    def add(self, c):
        self.pc.append(c)
        self.solver.add(c)

    def assume_defined(self, c):
        c = z3.simplify(c)
        if z3.is_true(c):
            return
        self.defined.append(c)
        self.add(c)

    def fresh(self, tag="aux"):
        self.naux += 1
        return z3.Real("%s!%d" % (tag, self.naux))

    def feasible(self, c):
        self.nqueries += 1
        self.solver.push()
        self.solver.add(c)
        r = self.solver.check()
        self.solver.pop()
        return str(r)  # sat / unsat / unknown

    def branch(self, cond):
        """decide a symbolic bool; fork"""
        cond = z3.simplify(cond)
        if z3.is_true(cond):
            return True
        if z3.is_false(cond):
            return False
        if self.pos < len(self.prefix):
            take = self.prefix[self.pos]
            self.pos += 1
            self.decisions.append(take)
            self.add(cond if take else z3.Not(cond))
            return take
        self.solver.set("timeout", self.bt)
        ft = self.feasible(cond)
        ff = self.feasible(z3.Not(cond))
        if ft == "unknown":
            ft = "sat"
        if ff == "unknown":
            ff = "sat"
        if ft == "sat" and ff == "sat":
            self.pending.append(self.decisions + [False])
            take = True
        elif ft == "sat":
            take = True
        elif ff == "sat":
            take = False
        else:
            raise Abort("infeasible path")
        self.pos += 1
        self.decisions.append(take)
        self.add(cond if take else z3.Not(cond))
        return take


def explore(fn, max_paths=10000, timeout_ms=20000):
    """run fn() over all feasible paths; yields (ctx, result or exception)"""
    work = [[]]
    n = 0
    while work:
        prefix = work.pop()
        ctx = Ctx(prefix, timeout_ms)
        Ctx.cur = ctx
        try:
            res = fn()
            exc = None
        except Abort as e:
            res, exc = None, e
        except Exception as e:  # real-code exception on this path
            res, exc = None, e
        finally:
            Ctx.cur = None
        work.extend(ctx.pending)
        n += 1
        yield ctx, res, exc
        if n >= max_paths:
            raise RuntimeError("path budget")


# ---------------------------------------------------------------- scalars

def _q(v):
    if isinstance(v, (bool, np.bool_)):
        return z3.RealVal(int(v))
    if isinstance(v, (int, np.integer)):
        return z3.RealVal(int(v))
    if isinstance(v, (float, np.floating)):
        if not math.isfinite(v):
            raise ValueError("non-finite concrete value in symbolic arithmetic: %r" % v)
        f = Fraction(float(v))
        return z3.Q(f.numerator, f.denominator)
    if isinstance(v, Fraction):
        return z3.Q(v.numerator, v.denominator)
    raise TypeError(type(v))


ZERO = z3.RealVal(0)


def _isz(e):
    return z3.is_rational_value(e) and e.numerator_as_long() == 0


class SymBool:
    __slots__ = ("e",)

    def __init__(self, e):
        self.e = e

    def __bool__(self):
        return Ctx.cur.branch(self.e)

    def __and__(self, o):
        return SymBool(z3.And(self.e, _b(o)))
    __rand__ = __and__

    def __or__(self, o):
        return SymBool(z3.Or(self.e, _b(o)))
    __ror__ = __or__

    def __invert__(self):
        return SymBool(z3.Not(self.e))

    # arithmetic use of masks: bool -> 0/1  (forces a fork; simple)
    def _num(self):
        return 1 if bool(self) else 0

    def __mul__(self, o):
        return self._num() * o
    __rmul__ = __mul__

    def __add__(self, o):
        return self._num() + o
    __radd__ = __add__

    def __rsub__(self, o):
        return o - self._num()

    def __sub__(self, o):
        return self._num() - o


def _b(o):
    if isinstance(o, SymBool):
        return o.e
    return z3.BoolVal(bool(o))



ONE = z3.RealVal(1)


def _is1(e):
    return z3.is_rational_value(e) and e.numerator_as_long() == 1 and e.denominator_as_long() == 1


class Sym:
    """complex symbolic scalar as rational function (re + i im)/den ; den assumed != 0"""
    __slots__ = ("re", "im", "den")

    def __init__(self, re, im=None, den=None):
        self.re = re if z3.is_expr(re) else _q(re)
        self.im = ZERO if im is None else (im if z3.is_expr(im) else _q(im))
        self.den = ONE if den is None else den

    @staticmethod
    def lift(v):
        if isinstance(v, Sym):
            return v
        if isinstance(v, SymBool):
            return Sym(v._num())
        if isinstance(v, (complex, np.complexfloating)):
            return Sym(_q(v.real), _q(v.imag))
        if isinstance(v, (bool, int, float, np.bool_, np.integer, np.floating, Fraction)):
            return Sym(_q(v))
        return NotImplemented

    def _need_real(self, what):
        if not _isz(z3.simplify(self.im)):
            if Ctx.cur.feasible(self.im != 0) != "unsat":
                raise TypeError("%s of a complex symbolic value" % what)

    def __add__(self, o):
        o = Sym.lift(o)
        if o is NotImplemented:
            return o
        if self.den.eq(o.den):
            return Sym(self.re + o.re, self.im + o.im, self.den)
        if _is1(self.den):
            return Sym(self.re * o.den + o.re, self.im * o.den + o.im, o.den)
        if _is1(o.den):
            return Sym(self.re + o.re * self.den, self.im + o.im * self.den, self.den)
        return Sym(self.re * o.den + o.re * self.den, self.im * o.den + o.im * self.den, self.den * o.den)
    __radd__ = __add__

    def __neg__(self):
        return Sym(-self.re, -self.im, self.den)

    def __pos__(self):
        return self

    def __sub__(self, o):
        o = Sym.lift(o)
        if o is NotImplemented:
            return o
        return self + (-o)

    def __rsub__(self, o):
        o = Sym.lift(o)
        if o is NotImplemented:
            return o
        return o + (-self)

    def __mul__(self, o):
        o = Sym.lift(o)
        if o is NotImplemented:
            return o
        den = self.den if _is1(o.den) else (o.den if _is1(self.den) else self.den * o.den)
        if _isz(self.im) and _isz(o.im):
            return Sym(self.re * o.re, None, den)
        return Sym(self.re * o.re - self.im * o.im, self.re * o.im + self.im * o.re, den)
    __rmul__ = __mul__

    def __truediv__(self, o):
        o = Sym.lift(o)
        if o is NotImplemented:
            return o
        ctx = Ctx.cur
        if _isz(o.im):
            ctx.assume_defined(o.re != 0)
            # (a/d1) / (n/d2) = a d2 / (d1 n)
            if z3.is_rational_value(z3.simplify(o.re)) and _is1(o.den):
                return Sym(self.re / o.re, self.im / o.re, self.den)
            return Sym(self.re * o.den, self.im * o.den, self.den * o.re)
        m2 = o.re * o.re + o.im * o.im
        ctx.assume_defined(m2 != 0)
        num = self * Sym(o.re, -o.im)          # times conj numerator
        # o = (c)/d2 ; 1/o = d2 conj(c)/|c|^2
        return Sym(num.re * o.den, num.im * o.den, self.den * m2)

    def __rtruediv__(self, o):
        o = Sym.lift(o)
        if o is NotImplemented:
            return o
        return o / self

    def __pow__(self, p):
        if isinstance(p, Sym):
            raise TypeError("symbolic exponent")
        if isinstance(p, (int, np.integer)) or (isinstance(p, float) and p == int(p)):
            p = int(p)
            if p < 0:
                return 1 / (self ** (-p))
            r = Sym(1)
            for _ in range(p):
                r = r * self
            return r
        if p == 0.5:
            return self.sqrt()
        if p == -0.5:
            return 1 / self.sqrt()
        raise TypeError("unsupported power %r" % (p,))

    def sqrt(self):
        self._need_real("sqrt")
        ctx = Ctx.cur
        s = ctx.fresh("s")
        # s = sqrt(re/den): s>=0, s^2 den = re ; defined iff re*den >= 0
        ctx.assume_defined(self.re * self.den >= 0)
        ctx.add(s >= 0)
        ctx.add(s * s * self.den == self.re)
        return Sym(s)

    def conjugate(self):
        return Sym(self.re, -self.im, self.den)
    conj = conjugate

    @property
    def real(self):
        return Sym(self.re, None, self.den)

    @property
    def imag(self):
        return Sym(self.im, None, self.den)

    def __abs__(self):
        if _isz(z3.simplify(self.im)):
            if SymBool(self.re * self.den >= 0):
                return self
            return -self
        return Sym(self.re * self.re + self.im * self.im, None, self.den * self.den).sqrt()

    def item(self):
        return self

    def _cmp(self, o, op):
        o = Sym.lift(o)
        if o is NotImplemented:
            return o
        self._need_real("ordering")
        o._need_real("ordering")
        # a/d ? b/e  <=>  (a e - b d) * (d e) ? 0
        if _is1(self.den) and _is1(o.den):
            return SymBool(op(self.re, o.re))
        d = self.re * o.den - o.re * self.den
        return SymBool(op(d * (self.den * o.den), ZERO))

    def __lt__(self, o):
        return self._cmp(o, lambda a, b: a < b)

    def __le__(self, o):
        return self._cmp(o, lambda a, b: a <= b)

    def __gt__(self, o):
        return self._cmp(o, lambda a, b: a > b)

    def __ge__(self, o):
        return self._cmp(o, lambda a, b: a >= b)

    def neq_expr(self, o):
        o = Sym.lift(o)
        return z3.Or(self.re * o.den != o.re * self.den, self.im * o.den != o.im * self.den)

    def __eq__(self, o):
        o = Sym.lift(o)
        if o is NotImplemented:
            return o
        return SymBool(z3.Not(self.neq_expr(o)))

    def __ne__(self, o):
        o = Sym.lift(o)
        if o is NotImplemented:
            return o
        return SymBool(self.neq_expr(o))

    __hash__ = None

    def __repr__(self):
        return "Sym((%s + i %s)/%s)" % (z3.simplify(self.re), z3.simplify(self.im), z3.simplify(self.den))


def symarr(name, shape, cplx=True):
    a = np.empty(shape, dtype=object)
    for idx in np.ndindex(*shape):
        tag = name + "".join("_%d" % i for i in idx)
        a[idx] = Sym(z3.Real(tag + "r"), z3.Real(tag + "i") if cplx else None)
    return a


def symreal(name):
    return Sym(z3.Real(name))


def vdot(a, b):
    s = Sym(0)
    for x, y in zip(np.asarray(a, dtype=object).ravel(), np.asarray(b, dtype=object).ravel()):
        s = s + Sym.lift(x).conjugate() * Sym.lift(y)
    return s


def install():
    """patch numpy entry points that cannot handle object dtype"""
    _vdot = np.vdot

    def vd(a, b):
        if getattr(a, "dtype", None) == object or getattr(b, "dtype", None) == object:
            return vdot(a, b)
        return _vdot(a, b)
    np.vdot = vd
    _norm = np.linalg.norm

    def norm(x, ord=None, axis=None, keepdims=False):
        if getattr(x, "dtype", None) == object:
            assert axis is None
            if ord is None or ord == 2:
                s = Sym(0)
                for v in x.ravel():
                    v = Sym.lift(v)
                    s = s + Sym(v.re * v.re + v.im * v.im, None, v.den * v.den)
                return s.sqrt()
            if ord == 1:
                s = Sym(0)
                for v in x.ravel():
                    s = s + abs(Sym.lift(v))
                return s
            raise NotImplementedError
        return _norm(x, ord=ord, axis=axis, keepdims=keepdims)
    np.linalg.norm = norm
    _real = np.real

    def real(x):
        if isinstance(x, Sym):
            return x.real
        return _real(x)
    np.real = real
    _iss = np.isscalar

    def isscalar(x):
        return isinstance(x, Sym) or _iss(x)
    np.isscalar = isscalar
