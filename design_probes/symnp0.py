"""Probe: symbolic complex scalars in object-dtype ndarray subclass through real sigpy code."""
import os
os.environ.setdefault("NUMBA_DISABLE_JIT", "1")
import numpy as np
import z3
from fractions import Fraction


def _q(v):
    if isinstance(v, (int, np.integer)):
        return z3.RealVal(int(v))
    if isinstance(v, (float, np.floating)):
        f = Fraction(float(v))
        return z3.RealVal(f.numerator) / z3.RealVal(f.denominator) if f.denominator != 1 else z3.RealVal(f.numerator)
    if isinstance(v, Fraction):
        return z3.Q(v.numerator, v.denominator)
    raise TypeError(type(v))


class SymC:
    __array_priority__ = 1000
    __slots__ = ("re", "im")

    def __init__(self, re, im=None):
        self.re = re if z3.is_expr(re) else _q(re)
        if im is None:
            im = z3.RealVal(0)
        self.im = im if z3.is_expr(im) else _q(im)

    @staticmethod
    def lift(v):
        if isinstance(v, SymC):
            return v
        if isinstance(v, (complex, np.complexfloating)):
            return SymC(_q(v.real), _q(v.imag))
        if isinstance(v, (bool, np.bool_)):
            return SymC(int(v))
        if isinstance(v, (int, float, np.integer, np.floating, Fraction)):
            return SymC(_q(v))
        return NotImplemented

    def __add__(self, o):
        o = SymC.lift(o)
        if o is NotImplemented:
            return o
        return SymC(self.re + o.re, self.im + o.im)
    __radd__ = __add__

    def __sub__(self, o):
        o = SymC.lift(o)
        if o is NotImplemented:
            return o
        return SymC(self.re - o.re, self.im - o.im)

    def __rsub__(self, o):
        o = SymC.lift(o)
        if o is NotImplemented:
            return o
        return o - self

    def __mul__(self, o):
        o = SymC.lift(o)
        if o is NotImplemented:
            return o
        return SymC(self.re * o.re - self.im * o.im, self.re * o.im + self.im * o.re)
    __rmul__ = __mul__

    def __neg__(self):
        return SymC(-self.re, -self.im)

    def __pos__(self):
        return self

    def conjugate(self):
        return SymC(self.re, -self.im)
    conj = conjugate

    @property
    def real(self):
        return SymC(self.re)

    @property
    def imag(self):
        return SymC(self.im)

    def item(self):
        return self

    def __repr__(self):
        return "SymC(%s, %s)" % (z3.simplify(self.re), z3.simplify(self.im))


class SymArray(np.ndarray):
    def __new__(cls, arr):
        return np.asarray(arr, dtype=object).view(cls)

    def astype(self, dtype, *a, **k):
        return self.copy()


def sym(name, shape, complex_=True):
    a = np.empty(shape, dtype=object)
    for idx in np.ndindex(*shape):
        tag = name + "_" + "_".join(map(str, idx))
        a[idx] = SymC(z3.Real(tag + "r"), z3.Real(tag + "i") if complex_ else z3.RealVal(0))
    return a.view(SymArray)


def vdot(a, b):
    s = SymC(0)
    for x, y in zip(a.ravel(), b.ravel()):
        s = s + SymC.lift(x).conjugate() * SymC.lift(y)
    return s


def prove_zero(c, extra=()):
    s = z3.Solver()
    for e in extra:
        s.add(e)
    s.add(z3.Or(c.re != 0, c.im != 0))
    r = s.check()
    return str(r), (s.model() if str(r) == "sat" else None)
