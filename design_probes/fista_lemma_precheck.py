import numpy as np
from sigpy import alg, prox
rng=np.random.default_rng(1); worst=-1e9; worst3=-1e9; worstmono=-1e9
for trial in range(3000):
    n=rng.integers(1,4); m=rng.integers(1,4)
    Am=rng.normal(size=(m,n)); b=rng.normal(size=m); lam=abs(rng.normal())
    L=np.linalg.norm(Am,2)**2+1e-9; alpha=rng.uniform(0.3,1.0)/L
    kind=rng.integers(0,3)
    if kind==0: P=None; g=lambda v:0.0
    elif kind==1: P=prox.L1Reg([n],lam); g=lambda v: lam*np.abs(v).sum()
    else: P=prox.BoxConstraint([n],-0.5,0.7); g=lambda v: 0.0 if np.all((v>=-0.5-1e-12)&(v<=0.7+1e-12)) else np.inf
    F=lambda v: 0.5*np.sum((Am@v-b)**2)+g(v)
    gradf=lambda v: Am.T@(Am@v-b)
    w=rng.normal(size=n)
    if kind==2: w=np.clip(w,-0.5,0.7)
    # accelerated from arbitrary state
    x=rng.normal(size=n); 
    if kind==2: x=np.clip(x,-0.5,0.7)
    a=alg.GradientMethod(gradf,x,alpha,proxg=P,accelerate=True,max_iter=10)
    a.z=rng.normal(size=n); a.t=1+abs(rng.normal())*3
    def Phi(): return 2*alpha*(a.t**2-a.t)*(F(a.x)-F(w))+np.sum((a.x+a.t*(a.z-a.x)-w)**2)
    p0=Phi(); a.update(); p1=Phi(); worst=max(worst,(p1-p0)/(abs(p0)+1))
    # unaccelerated three-point + monotone
    x=rng.normal(size=n)
    if kind==2: x=np.clip(x,-0.5,0.7)
    x0=x.copy(); a=alg.GradientMethod(gradf,x,alpha,proxg=P,accelerate=False,max_iter=10); a.update()
    lhs=F(a.x)-F(w); rhs=(np.sum((x0-w)**2)-np.sum((a.x-w)**2))/(2*alpha); worst3=max(worst3,(lhs-rhs)/(abs(rhs)+1))
    worstmono=max(worstmono,(F(a.x)-F(x0))/(abs(F(x0))+1))
print("potential increase",worst,"three-point viol",worst3,"monotone viol",worstmono)
