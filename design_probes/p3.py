import cyc, time, itertools
from cyc import *
from math import lcm
import sigpy as sp
from sigpy import linop
install_fft()

def need_N(shape, axes):
    N = 4
    for a in axes:
        n = shape[a]
        N = lcm(N, n, 4*n if n%4!=1 else n)   # generous: sqrt(n) in Q(zeta_{4n})
        if n % 2 == 0: N = lcm(N, 8)
    return N

def oracle_fftc(x, axes, inverse=False, center=True):
    # explicit centred unitary DFT matrix per axis
    a = x
    for ax in axes:
        n = a.shape[ax]; c = n//2 if center else 0
        a = np.moveaxis(a, ax, 0); out = np.empty(a.shape, dtype=object)
        sq = cyc.FIELD.sqrt_int(n); scale = SymK([q/n for q in sq])
        sgn = 1 if inverse else -1
        for k in range(n):
            acc = 0
            for j in range(n):
                acc = acc + a[j]*SymK(cyc.FIELD.zeta((sgn*(k-c)*(j-c)) % n, n))
            out[k] = acc*scale
        a = np.moveaxis(out, 0, ax)
    return a

# sanity of field: sqrt
F = set_field(120)
for n in [2,3,5,6,8,12,15]:
    print(n, F.embed(F.sqrt_int(n)), n**0.5) if 120 % (4*n if n%4!=1 else n)==0 or True else None
for shape, axes in [((3,),(0,)), ((4,),(0,)), ((5,),(-1,)), ((6,),(0,)), ((3,4),(0,1)), ((3,4),(1,)), ((5,3),(-2,)), ((2,3,2),(0,2))]:
    N = need_N(shape, axes); set_field(N)
    t=time.time()
    x = sym("x", shape)
    y = sp.fft(x, axes=axes)
    o = oracle_fftc(x, [a%len(shape) for a in axes])
    s = z3.Solver(); s.add(z3.Or([a.neq(b) for a,b in zip(y.ravel(), o.ravel())]))
    r1 = s.check()
    # unitarity / inverse
    z = sp.ifft(y, axes=axes)
    s = z3.Solver(); s.add(z3.Or([a.neq(b) for a,b in zip(z.ravel(), x.ravel())]))
    r2 = s.check()
    # adjoint of linop
    A = linop.FFT(list(shape), axes=axes); yy = sym("y", shape)
    d = vdot(yy, A(x)) - vdot(A.H(yy), x)
    s = z3.Solver(); s.add(d.neq(0)); r3 = s.check()
    print(shape, axes, "N=%d deg=%d"%(N, cyc.FIELD.deg), "def:", r1, "inv:", r2, "adj:", r3, "%.2fs"%(time.time()-t))
