"""Probe: exact cyclotomic-field symbolic scalars: K = Q(zeta_N) (x) z3-Real polynomials."""
import os
os.environ.setdefault("NUMBA_DISABLE_JIT", "1")
from fractions import Fraction
from math import gcd
import numpy as np
import z3


def _polydiv_exact(num, den):
    num = list(num)
    out = [0] * (len(num) - len(den) + 1)
    for i in range(len(out) - 1, -1, -1):
        c = num[i + len(den) - 1] // den[-1]
        out[i] = c
        for j, d in enumerate(den):
            num[i + j] -= c * d
    assert not any(num), "inexact"
    return out


_cyc_cache = {}


def cyclotomic(n):
    if n in _cyc_cache:
        return _cyc_cache[n]
    p = [-1] + [0] * (n - 1) + [1]
    for d in range(1, n):
        if n % d == 0:
            p = _polydiv_exact(p, cyclotomic(d))
    _cyc_cache[n] = p
    return p


class Field:
    def __init__(self, N):
        assert N % 4 == 0
        self.N = N
        self.phi = cyclotomic(N)  # low -> high, monic
        self.deg = len(self.phi) - 1
        # zeta^k table
        self.pow = []
        v = [Fraction(1)] + [Fraction(0)] * (self.deg - 1)
        for k in range(N):
            self.pow.append(tuple(v))
            v = self._mulx(v)
        assert tuple(v) == self.pow[0]
        # structure constants: basis_i * basis_j = sum_k T[i][j][k] basis_k  (basis_i = zeta^i, i<deg)
        self.T = [[self._powvec(i + j) for j in range(self.deg)] for i in range(self.deg)]
        # conj matrix: conj(zeta^i) = zeta^(N-i)
        self.C = [self.pow[(N - i) % N] for i in range(self.deg)]

    def _mulx(self, v):
        d = self.deg
        top = v[-1]
        w = [Fraction(0)] + list(v[:-1])
        if top:
            for i in range(d):
                w[i] -= top * self.phi[i]
        return w

    def _powvec(self, k):
        return self.pow[k % self.N]

    def zeta(self, num, den):
        """exp(2 pi i num/den) as coordinate vector"""
        assert self.N % den == 0, (self.N, den)
        return self.pow[(num * (self.N // den)) % self.N]

    def sqrt_int(self, n):
        """coordinate vector of +sqrt(n) (n positive int)"""
        # n = s^2 * m, m squarefree
        s, m = 1, n
        p = 2
        while p * p <= m:
            while m % (p * p) == 0:
                m //= p * p
                s *= p
            p += 1
        res = [Fraction(s)] + [Fraction(0)] * (self.deg - 1)
        p = 2
        mm = m
        while mm > 1:
            if mm % p == 0:
                mm //= p
                res = self.mulvec(res, self._sqrt_prime(p))
            else:
                p += 1
        return tuple(res)

    def _sqrt_prime(self, p):
        if p == 2:
            a, b = self.zeta(1, 8), self.zeta(7, 8)
            return tuple(x + y for x, y in zip(a, b))
        g = [Fraction(0)] * self.deg
        for k in range(p):
            g = [x + y for x, y in zip(g, self.zeta(k * k % p, p))]
        if p % 4 == 3:  # g = i sqrt(p) -> sqrt(p) = -i g
            mi = self.zeta(3, 4)
            g = self.mulvec(g, mi)
        return tuple(g)

    def mulvec(self, a, b):
        d = self.deg
        out = [0] * d
        for i in range(d):
            if _iszero(a[i]):
                continue
            for j in range(d):
                if _iszero(b[j]):
                    continue
                ab = _mul(a[i], b[j])
                t = self.T[i][j]
                for k in range(d):
                    if t[k]:
                        out[k] = _add(out[k], _mul(ab, t[k]))
        return out

    def conjvec(self, a):
        d = self.deg
        out = [0] * d
        for i in range(d):
            if _iszero(a[i]):
                continue
            for k in range(d):
                if self.C[i][k]:
                    out[k] = _add(out[k], _mul(a[i], self.C[i][k]))
        return out

    def embed(self, v):
        """numeric complex value of a concrete coordinate vector"""
        import cmath
        return sum(complex(float(c)) * cmath.exp(2j * cmath.pi * k / self.N) for k, c in enumerate(v))


def _iszero(a):
    return (not z3.is_expr(a)) and a == 0


def _toz(a):
    if z3.is_expr(a):
        return a
    a = Fraction(a)
    return z3.Q(a.numerator, a.denominator)


def _mul(a, b):
    za, zb = z3.is_expr(a), z3.is_expr(b)
    if not za and not zb:
        return a * b
    if not za:
        if a == 0:
            return 0
        if a == 1:
            return b
        return _toz(a) * b
    if not zb:
        if b == 0:
            return 0
        if b == 1:
            return a
        return a * _toz(b)
    return a * b


def _add(a, b):
    za, zb = z3.is_expr(a), z3.is_expr(b)
    if not za and not zb:
        return a + b
    if not za:
        return b if a == 0 else _toz(a) + b
    if not zb:
        return a if b == 0 else a + _toz(b)
    return a + b


FIELD = None


def set_field(N):
    global FIELD
    FIELD = Field(N)
    return FIELD


def _frac(v):
    if isinstance(v, (bool, np.bool_)):
        return Fraction(int(v))
    if isinstance(v, (int, np.integer)):
        return Fraction(int(v))
    if isinstance(v, (float, np.floating)):
        return Fraction(float(v))
    if isinstance(v, Fraction):
        return v
    raise TypeError(type(v))


class SymK:
    __slots__ = ("c",)

    def __init__(self, c):
        self.c = tuple(c)

    @staticmethod
    def real_(r):
        return SymK([r] + [0] * (FIELD.deg - 1))

    @staticmethod
    def cplx(re, im):
        i = FIELD.zeta(1, 4)
        return SymK([_add(re if k == 0 else 0, _mul(im, i[k])) for k in range(FIELD.deg)])

    @staticmethod
    def lift(v):
        if isinstance(v, SymK):
            return v
        if isinstance(v, (complex, np.complexfloating)):
            return SymK.cplx(_frac(v.real), _frac(v.imag))
        try:
            return SymK.real_(_frac(v))
        except TypeError:
            return NotImplemented

    def __add__(self, o):
        o = SymK.lift(o)
        if o is NotImplemented:
            return o
        return SymK([_add(a, b) for a, b in zip(self.c, o.c)])
    __radd__ = __add__

    def __neg__(self):
        return SymK([_mul(a, -1) for a in self.c])

    def __sub__(self, o):
        o = SymK.lift(o)
        if o is NotImplemented:
            return o
        return self + (-o)

    def __rsub__(self, o):
        return (-self) + o

    def __mul__(self, o):
        o = SymK.lift(o)
        if o is NotImplemented:
            return o
        return SymK(FIELD.mulvec(self.c, o.c))
    __rmul__ = __mul__

    def conjugate(self):
        return SymK(FIELD.conjvec(self.c))
    conj = conjugate

    def item(self):
        return self

    def neq(self, o):
        o = SymK.lift(o)
        return z3.Or([_toz(a) != _toz(b) for a, b in zip(self.c, o.c)])


def sym(name, shape, complex_=True):
    a = np.empty(shape, dtype=object)
    for idx in np.ndindex(*shape):
        tag = name + "_" + "_".join(map(str, idx))
        a[idx] = SymK.cplx(z3.Real(tag + "r"), z3.Real(tag + "i") if complex_ else 0)
    return a


def vdot(a, b):
    s = SymK.real_(0)
    for x, y in zip(a.ravel(), b.ravel()):
        s = s + SymK.lift(x).conjugate() * SymK.lift(y)
    return s


# ---- exact DFT stub for numpy.fft on object arrays
def _dft1(a, axis, inverse, norm):
    n = a.shape[axis]
    a = np.moveaxis(a, axis, 0)
    out = np.empty(a.shape, dtype=object)
    sgn = 1 if inverse else -1
    if norm == "ortho":
        sq = FIELD.sqrt_int(n)
        # 1/sqrt(n) = sqrt(n)/n
        scale = SymK([c / n for c in sq])
    elif (norm is None or norm == "backward"):
        scale = SymK.real_(Fraction(1, n)) if inverse else SymK.real_(1)
    else:
        raise ValueError(norm)
    tw = [SymK(FIELD.zeta(sgn * k % n, n)) for k in range(n)]
    for k in range(n):
        acc = 0
        for j in range(n):
            acc = acc + a[j] * tw[(j * k) % n]
        out[k] = acc * scale
    return np.moveaxis(out, 0, axis)


def _fftn(a, s=None, axes=None, norm=None, inverse=False):
    a = np.asarray(a, dtype=object)
    if axes is None:
        axes = range(a.ndim) if s is None else range(-len(s), 0)
    axes = list(axes)
    if s is not None:
        for ax, n in zip(axes, s):
            # numpy semantics: crop / zero-pad at the end
            cur = a.shape[ax]
            if n < cur:
                a = np.take(a, range(n), axis=ax)
            elif n > cur:
                pad = [(0, 0)] * a.ndim
                pad[ax] = (0, n - cur)
                a = np.pad(a, pad, constant_values=0)
    for ax in axes:
        a = _dft1(a, ax, inverse, norm)
    return a


_orig = (np.fft.fftn, np.fft.ifftn)


def install_fft():
    def fftn(a, s=None, axes=None, norm=None):
        if getattr(a, "dtype", None) == object:
            return _fftn(a, s, axes, norm, False)
        return _orig[0](a, s=s, axes=axes, norm=norm)

    def ifftn(a, s=None, axes=None, norm=None):
        if getattr(a, "dtype", None) == object:
            return _fftn(a, s, axes, norm, True)
        return _orig[1](a, s=s, axes=axes, norm=norm)
    np.fft.fftn = fftn
    np.fft.ifftn = ifftn
    _iss = np.issubdtype

    def issubdtype(a, b):
        if a == object and b is np.complexfloating:
            return True
        return _iss(a, b)
    np.issubdtype = issubdtype
