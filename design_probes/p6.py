import os; os.environ["NUMBA_DISABLE_JIT"]="1"
import time, numpy as np
from sympy.polys.fields import field
from sympy.polys.domains import QQ
import sigpy as sp
from sigpy import alg

def run(n, symA, iters, cplx=False):
    t=time.time()
    names = ["b%d"%i for i in range(n)]+["x%d"%i for i in range(n)]
    if symA: names += ["l%d%d"%(i,j) for i in range(n) for j in range(i+1)]
    K, *gens = field(",".join(names), QQ)
    g = dict(zip(names, gens))
    _K=K
    class R:
        __slots__=("f",)
        def __init__(s,f): s.f=f
        @staticmethod
        def lift(v):
            if isinstance(v,R): return v
            if isinstance(v,(int,np.integer)): return R(_K(int(v)))
            return NotImplemented
        def __add__(s,o):
            o=R.lift(o); return o if o is NotImplemented else R(s.f+o.f)
        __radd__=__add__
        def __sub__(s,o):
            o=R.lift(o); return o if o is NotImplemented else R(s.f-o.f)
        def __rsub__(s,o):
            o=R.lift(o); return o if o is NotImplemented else R(o.f-s.f)
        def __mul__(s,o):
            o=R.lift(o); return o if o is NotImplemented else R(s.f*o.f)
        __rmul__=__mul__
        def __neg__(s): return R(-s.f)
        def __truediv__(s,o):
            o=R.lift(o); return o if o is NotImplemented else R(s.f/o.f)
        def conjugate(s): return s
        real = property(lambda s: s)
        def item(s): return s
        def __le__(s,o): return False
        def __lt__(s,o): return False
        def __pow__(s,p): return s
        def __eq__(s,o): return not bool((s.f - R.lift(o).f).numer)
    K=lambda v: R(_K(v)); g={k:R(v) for k,v in g.items()}
    if symA:
        L = np.zeros((n,n),dtype=object)
        for i in range(n):
            for j in range(n): L[i,j]= g["l%d%d"%(i,j)] if j<=i else K(0)
        A = L@L.T
        for i in range(n): A[i,i] = A[i,i]+K(1)
    else:
        rng=np.random.default_rng(0); M=rng.integers(-3,4,size=(n,n)); Ai=(M.T@M+np.eye(n,dtype=int)); A=np.empty((n,n),dtype=object)
        for i in np.ndindex(n,n): A[i]=K(int(Ai[i]))
    b=np.array([g["b%d"%i] for i in range(n)],dtype=object); x=np.array([g["x%d"%i] for i in range(n)],dtype=object)
    x0=x.copy(); r0=b-A@x0
    vd = lambda a,b_: sum((u*v for u,v in zip(a,b_)), K(0))
    np.vdot = vd; np.real = lambda v: v
    cg=alg.ConjugateGradient(lambda v:A@v,b,x,max_iter=iters+1)
    for k in range(1,iters+1):
        cg.update()
        rk=b-A@cg.x
        tr = all((u-v)==0 for u,v in zip(cg.r,rk))
        v=r0; orth=[]
        for j in range(k):
            orth.append(vd(v,rk)==0); v=A@v
        sz = max(len(e.f.numer.terms()) for e in cg.x)
        print("n=%d symA=%s k=%d tracked=%s krylov=%s  max terms=%d  t=%.1fs"%(n,symA,k,tr,orth,sz,time.time()-t), flush=True)
import sys
run(3,False,3)
