exec(open('p3.py').read().split("# sanity of field")[0])
import numpy as np
np.fft.ifftshift = np.fft.fftshift   # mutation: wrong pre-shift
for shape, axes in [((3,),(0,)), ((4,),(0,)), ((5,3),(-2,))]:
    set_field(need_N(shape, axes))
    x = sym("x", shape); y = sp.fft(x, axes=axes); o = oracle_fftc(x, [a%len(shape) for a in axes])
    s = z3.Solver(); s.add(z3.Or([a.neq(b) for a,b in zip(y.ravel(), o.ravel())]))
    r = s.check(); print(shape, axes, r, (s.model() if str(r)=='sat' else ''))
