import numpy as np, sigpy as sp, warnings
from sigpy import linop, prox, thresh, app, alg
import sigpy.mri as mr
np.random.seed(0)
print("== C02 get_cov mutates:")
n = np.random.randn(2,5)+1; n0=n.copy(); mr.util.get_cov(n); print("  changed:", not np.array_equal(n,n0))
print("== C03 negative axis:")
for ax in (1,-1):
    try:
        H = linop.Hstack([linop.Identity([2,3]), linop.Identity([2,3])], axis=ax); print("  axis",ax,"ishape",H.ishape, end=" ")
        print("apply ok", H(np.ones(H.ishape)).shape)
    except Exception as e: print("  axis",ax,"ERR",repr(e)[:80])
for ax in (1,-1):
    try:
        V = linop.Vstack([linop.Identity([2,3]), linop.Identity([2,3])], axis=ax); print("  V axis",ax,"oshape",V.oshape, end=" ")
        print("apply", V(np.ones([2,3])).shape)
    except Exception as e: print("  V axis",ax,"ERR",repr(e)[:80])
print("== C04 blocks normal:")
A = linop.ArrayToBlocks([5],[2],[1]); x=np.arange(5.)+1; print("  overlap A.N x", A.N(x), "A.H A x", A.H(A(x)))
A = linop.ArrayToBlocks([5],[2],[3]); print("  gapped  A.N x", A.N(x), "A.H A x", A.H(A(x)))
B = linop.BlocksToArray([5],[2],[1]); y=np.arange(8.).reshape(4,2)+1; print("  B.N y", B.N(y).ravel(), "B.H B y", B.H(B(y)).ravel())
print("== C11 l1_proj shape:")
print("  ", thresh.l1_proj(10., np.ones((2,2))).shape)
print("== C11 psd_proj repeated eig:")
Q,_ = np.linalg.qr(np.random.randn(3,3)); M = Q@np.diag([2.,2.,-1.])@Q.T
P = thresh.psd_proj(M); w,v=np.linalg.eigh((M+M.T)/2); ref=(v*np.maximum(w,0))@v.T; print("  err", np.abs(P-ref).max())
M = Q@np.diag([1.,1.,1.])@Q.T; P=thresh.psd_proj(M); print("  err identity-like", np.abs(P-M).max())
print("== C14 PDHG with G and lamda>0:")
Am = np.array([[2.,1],[0,1],[1,3]]); A=linop.MatMul([2,1],Am); y=np.array([[1.],[2.],[3.]]); G=linop.MatMul([2,1],np.array([[1.,-1],[1,1]])); lam=0.5; l1=0.3
def obj(x): return 0.5*np.linalg.norm(Am@x-y)**2 + l1*np.abs(G(x)).sum() + lam/2*np.linalg.norm(x)**2
res={}
for solver in ["PrimalDualHybridGradient","ADMM"]:
    try:
        x = app.LinearLeastSquares(A,y,proxg=prox.L1Reg(G.oshape,l1),G=G,lamda=lam,solver=solver,max_iter=3000,show_pbar=False, **({"max_cg_iter":20} if solver=="ADMM" else {})).run()
        res[solver]=obj(x); print("  ",solver, x.ravel(), obj(x))
    except Exception as e: print("  ",solver,"ERR",repr(e)[:150])
print("== C15 PDHG early stop:")
A=linop.MatMul([2,1],np.array([[1.,0],[0,1]])); y=np.array([[1.],[1.]])
a = app.LinearLeastSquares(A,y,proxg=prox.L1Reg([2,1],0.2),solver="PrimalDualHybridGradient",tau=1.0,sigma=0.1,max_iter=100,show_pbar=False)
x=a.run(); print("  iters",a.alg.iter,"x",x.ravel(), " (true soln 0.8)")
print("== C20 min_trap_grad small area:")
from sigpy.mri.rf import trajgrad
try: print(trajgrad.min_trap_grad(1e-6, 4, 1e5, 1e-5)[0].shape)
except Exception as e: print("  ERR", repr(e)[:100])
print("== C08 valid zero-length:")
try: print("  ", sp.convolve(np.ones(2), np.ones(3), mode='valid', strides=[2]).shape)
except Exception as e: print("  ERR", repr(e)[:100])
