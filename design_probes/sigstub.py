import numpy as np, itertools
import scipy.signal as signal
_conv, _corr = signal.convolve, signal.correlate
def _full_conv(a, b):
    out = np.zeros([m+n-1 for m,n in zip(a.shape,b.shape)], dtype=object)
    for i in np.ndindex(*a.shape):
        for j in np.ndindex(*b.shape):
            k = tuple(p+q for p,q in zip(i,j))
            out[k] = out[k] + a[i]*b[j]
    return out
def convolve(a, b, mode="full", method="auto"):
    if a.dtype != object and b.dtype != object:
        return _conv(a,b,mode=mode,method=method)
    a = np.asarray(a,dtype=object); b=np.asarray(b,dtype=object)
    full = _full_conv(a,b)
    if mode=="full": return full
    if mode=="valid":
        # scipy: requires one to be at least as large as other in every dim
        ok1 = all(m>=n for m,n in zip(a.shape,b.shape)); ok2 = all(n>=m for m,n in zip(a.shape,b.shape))
        if not (ok1 or ok2): raise ValueError("For 'valid' mode, one must be at least as large as the other in every dimension")
        slc = tuple(slice(min(m,n)-1, max(m,n)) for m,n in zip(a.shape,b.shape))
        return full[slc]
    raise ValueError(mode)
def correlate(a, b, mode="full", method="auto"):
    if a.dtype != object and b.dtype != object:
        return _corr(a,b,mode=mode,method=method)
    b = np.asarray(b,dtype=object)
    rb = np.conj(b[tuple(slice(None,None,-1) for _ in b.shape)])
    return convolve(np.asarray(a,dtype=object), rb, mode=mode)
signal.convolve = convolve; signal.correlate = correlate
# validate on random
if __name__=="__main__":
    rng=np.random.default_rng(0)
    for sa,sb in [((3,4),(2,2)),((2,2),(3,4)),((5,),(3,)),((2,3,4),(2,2,2))]:
        a=rng.normal(size=sa)+1j*rng.normal(size=sa); b=rng.normal(size=sb)+1j*rng.normal(size=sb)
        for mode in ["full","valid"]:
            r1=_conv(a,b,mode=mode); r2=convolve(a.astype(object),b.astype(object),mode=mode).astype(complex)
            r3=_corr(a,b,mode=mode); r4=correlate(a.astype(object),b.astype(object),mode=mode).astype(complex)
            print(sa,sb,mode,np.allclose(r1,r2),np.allclose(r3,r4), r3.shape)
