import numpy as np, sigpy as sp
from sigpy import alg, prox, linop
rng=np.random.default_rng(0)
worst = {"plain_after":-1e9, "M_(xold,u)":-1e9, "M_(x,u)":-1e9, "M_(x,u)_plus":-1e9}
for trial in range(300):
    m,n = rng.integers(1,4), rng.integers(1,4)
    Am = rng.normal(size=(m,n)); y = rng.normal(size=(m,)); lam = abs(rng.normal())*0.5
    L = np.linalg.norm(Am,2)
    tau = rng.uniform(0.2,1.0)/max(L,1e-3); sigma = 1.0/(tau*L*L) * rng.uniform(0.5,1.0)
    # problem: min_x 0.5||Ax-y||^2 + lam||x||_1 ; f*(u)=0.5||u||^2+<u,y> ; proxfc = L2Reg(1, y=-y)
    proxfc = prox.L2Reg([m],1,y=-y); proxg = prox.L2Reg([n],lam)
    A = lambda v: Am@v; AH = lambda v: Am.T@v
    # reference saddle point by long run
    xs=np.linalg.solve(Am.T@Am+lam*np.eye(n), Am.T@y); us=Am@xs-y
    # check fixed
    x=rng.normal(size=n); u=rng.normal(size=m)
    a = alg.PrimalDualHybridGradient(proxfc,proxg,A,AH,x,u,tau,sigma,max_iter=50)
    def M(xx,uu,sign=-1): return np.sum((xx-xs)**2)/tau + sign*2*np.dot(Am@(xx-xs), uu-us) + np.sum((uu-us)**2)/sigma
    prev = None
    xold = x.copy()
    for k in range(50):
        xo = a.x.copy()
        a.update()
        cur = {"plain_after": np.sum((a.x-xs)**2)/tau+np.sum((a.u-us)**2)/sigma,
               "M_(xold,u)": M(xo,a.u), "M_(x,u)": M(a.x,a.u), "M_(x,u)_plus": M(a.x,a.u,+1)}
        if prev is None: first=cur
        if prev is not None:
            for kk in cur: worst[kk]=max(worst[kk], (cur[kk]-prev[kk])/first[kk])
        prev=cur
print({k: float(v) for k,v in worst.items()})
