from symnp0 import *
import sigpy as sp, time
from sigpy import linop
import traceback

def adj_check(A, name):
    t=time.time()
    try:
        x = sym("x", A.ishape); y = sym("y", A.oshape)
        Ax = A(x); AHy = A.H(y)
        assert list(Ax.shape)==list(A.oshape), (Ax.shape, A.oshape)
        d = vdot(y, Ax) - vdot(AHy, x)   # <y,Ax> - <A^H y, x>
        r,_ = prove_zero(d)
        print(name, "adjoint:", r, "%.2fs"%(time.time()-t), type(Ax).__name__)
    except Exception as e:
        print(name, "ERR", repr(e)[:300]); traceback.print_exc(limit=3)

adj_check(linop.Resize([5],[3]), "Resize")
adj_check(linop.Resize([2,5],[3,4]), "Resize2")
adj_check(linop.Multiply([2,3], np.array([1.5,2,3+1j])), "Multiply")
adj_check(linop.Multiply([2,1], np.array([1.5,2,3+1j])), "Multiply bc")
adj_check(linop.Multiply([2,3], 2+1j), "Multiply scalar")
adj_check(linop.Sum([2,3],[0]), "Sum")
adj_check(linop.MatMul([3,2], np.array([[1,2,3],[4,5j,6]])), "MatMul")
adj_check(linop.Hstack([linop.Identity([2]), linop.Resize([2],[3])]), "Hstack")
adj_check(linop.Vstack([linop.Identity([2]), linop.Resize([3],[2])], axis=0), "Vstack")
adj_check(linop.Circshift([4],[1]), "Circshift")
adj_check(linop.Downsample([5],[2]), "Downsample")
adj_check(linop.Transpose([2,3]), "Transpose")
adj_check(linop.Slice([4,3], (slice(1,3), slice(None))), "Slice")
adj_check(linop.ArrayToBlocks([6],[2],[1]), "A2B")
adj_check(linop.ConvolveData([4], np.array([1.,2,3j])), "ConvData")
adj_check(linop.ConvolveData([4], np.array([1.,2,3j]), mode='valid', strides=[2]), "ConvData valid s2")
adj_check(linop.ConvolveFilter([3], np.array([1.,2,3j,4])), "ConvFilter")
adj_check(linop.FiniteDifference([3,2]), "FiniteDiff")
adj_check(linop.Interpolate([5], np.array([[0.3],[1.7]])), "Interp")
adj_check(linop.Tile([2,3],[0]), "Tile")
A = linop.Resize([5],[3]); B=linop.Multiply([3], np.array([1.5,2,3+1j]))
adj_check(2j*A*B + linop.Resize([5],[3],ishift=[1],oshift=[0]), "expr")
