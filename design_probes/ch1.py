from typing import List, Tuple
from sigpy.linop import _hstack_params
from sigpy.conv import _get_convolve_params
from sigpy.fourier import _get_oversamp_shape

def hstack2(a: int, b: int, c: int, d: int, axis: int) -> Tuple[List[int], List[int]]:
    """
    pre: 1 <= a <= 6 and 1 <= b <= 6 and 1 <= c <= 6 and 1 <= d <= 6
    pre: -2 <= axis < 2
    pre: (b == d) if axis % 2 == 0 else (a == c)
    post: __return__[0][axis % 2] == (a + c if axis % 2 == 0 else b + d)
    post: __return__[1] == [a if axis % 2 == 0 else b]
    """
    return _hstack_params([[a, b], [c, d]], axis)

def conv_full_len(m: int, n: int, s: int) -> int:
    """
    pre: 1 <= m <= 64 and 1 <= n <= 64 and 1 <= s <= 8
    post: __return__ == len(range(0, m + n - 1, s))
    """
    return _get_convolve_params((m,), (n,), "full", (s,), False)[8][0]

def conv_valid_len(m: int, n: int, s: int) -> int:
    """
    pre: 1 <= m <= 64 and 1 <= n <= 64 and 1 <= s <= 8
    post: __return__ == len(range(0, max(m, n) - min(m, n) + 1, s))
    """
    return _get_convolve_params((m,), (n,), "valid", (s,), False)[8][0]
