import symx, time
from symx import *
import numpy as np, sigpy as sp
from sigpy import prox, thresh
install()
# replace nb.vectorize kernels by python-level elementwise application of the real py_func
for name in ("_soft_thresh", "_hard_thresh"):
    pf = getattr(thresh, name)._dispatcher.py_func
    setattr(thresh, name, np.frompyfunc(pf, 2, 1))


def check(title, build, n, cplx, timeout=20000):
    t0 = time.time(); npaths = 0; bad = []; excs = []

    def body():
        ctx = Ctx.cur
        y = symarr("y", (n,), cplx); alpha = symreal("alpha"); ctx.add(alpha.re > 0)
        y0 = y.copy()
        P, negs = build(ctx, n, alpha, y, cplx)
        return negs, y0, y
    for ctx, res, exc in explore(body, timeout_ms=5000):
        npaths += 1
        if exc is not None:
            excs.append((ctx.decisions, repr(exc)[:200])); continue
        negs, y0, y = res
        for nm, neg in negs:
            s = z3.Solver(); s.set("timeout", timeout)
            for c in ctx.pc:
                s.add(c)
            s.add(neg); r = str(s.check())
            if r != "unsat":
                bad.append((nm, r, ctx.decisions))
    print(title, "n=%d cplx=%s paths=%d excs=%d non-unsat=%d %.1fs" % (n, cplx, npaths, len(excs), len(bad), time.time() - t0), bad[:3], excs[:2], flush=True)


def b_l1(ctx, n, alpha, y, cplx):
    lam = symreal("lam"); ctx.add(lam.re > 0)
    P = prox.L1Reg([n], lam); p = P(alpha, y)
    negs = [("shape", z3.BoolVal(list(p.shape) != [n]))]
    th = alpha * lam
    for i in range(n):
        pi = Sym.lift(p[i]); yi = y[i]; d = yi - pi
        isz = z3.And(pi.re == 0, pi.im == 0)
        ay2 = yi.re * yi.re + yi.im * yi.im
        ok_nz = z3.And(d.re * pi.im == d.im * pi.re, d.re * pi.re + d.im * pi.im >= 0, d.re * d.re + d.im * d.im == th.re * th.re)
        ok_z = ay2 <= th.re * th.re
        negs.append(("opt%d" % i, z3.Not(z3.If(isz, ok_z, ok_nz))))
    return P, negs


def b_l2proj(ctx, n, alpha, y, cplx):
    eps = symreal("eps"); ctx.add(eps.re > 0)
    P = prox.L2Proj([n], eps); p = P(alpha, y)
    w = symarr("w", (n,), cplx)

    def nrm2(v):
        s = z3.RealVal(0)
        for a in v:
            a = Sym.lift(a)
            s = s + a.re * a.re + a.im * a.im
        return s
    negs = [("feasible", nrm2(p) > eps.re * eps.re),
            ("nearest", z3.And(nrm2(w) <= eps.re * eps.re, nrm2(w - y) < nrm2(p - y))),
            ("ident", z3.And(nrm2(y) <= eps.re * eps.re, z3.Or([z3.Or(Sym.lift(a).re != b.re, Sym.lift(a).im != b.im) for a, b in zip(p, y)])))]
    return P, negs


check("L1Reg", b_l1, 2, False)
check("L1Reg", b_l1, 1, True)
check("L1Reg", b_l1, 2, True)
check("L2Proj", b_l2proj, 2, False, timeout=60000)
check("L2Proj", b_l2proj, 1, True, timeout=60000)
