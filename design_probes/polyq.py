"""Probe: canonical sparse polynomials / rational functions over Q; z3 only for decisions."""
from fractions import Fraction
import z3

_names = []
_ids = {}


def var_id(name):
    if name not in _ids:
        _ids[name] = len(_names)
        _names.append(name)
    return _ids[name]


class Poly:
    __slots__ = ("t", "_h", "_z")

    def __init__(self, t):
        self.t = t  # dict mono(tuple of (var,exp)) -> Fraction, no zero coeffs
        self._h = None
        self._z = None

    @staticmethod
    def const(c):
        c = Fraction(c)
        return Poly({(): c} if c else {})

    @staticmethod
    def var(name):
        return Poly({((var_id(name), 1),): Fraction(1)})

    def is_zero(self):
        return not self.t

    def is_const(self):
        return not self.t or (len(self.t) == 1 and () in self.t)

    def cval(self):
        return self.t.get((), Fraction(0))

    def __add__(self, o):
        if not o.t:
            return self
        if not self.t:
            return o
        a, b = (self.t, o.t) if len(self.t) >= len(o.t) else (o.t, self.t)
        r = dict(a)
        for m, c in b.items():
            v = r.get(m)
            if v is None:
                r[m] = c
            else:
                v = v + c
                if v:
                    r[m] = v
                else:
                    del r[m]
        return Poly(r)

    def __neg__(self):
        return Poly({m: -c for m, c in self.t.items()})

    def __sub__(self, o):
        return self + (-o)

    def scale(self, c):
        if not c:
            return Poly({})
        if c == 1:
            return self
        return Poly({m: v * c for m, v in self.t.items()})

    def __mul__(self, o):
        if not self.t or not o.t:
            return Poly({})
        if self.is_const():
            return o.scale(self.cval())
        if o.is_const():
            return self.scale(o.cval())
        r = {}
        for m1, c1 in self.t.items():
            for m2, c2 in o.t.items():
                m = _mmul(m1, m2)
                v = r.get(m)
                c = c1 * c2
                if v is None:
                    r[m] = c
                else:
                    v += c
                    if v:
                        r[m] = v
                    else:
                        del r[m]
        return Poly(r)

    def key(self):
        if self._h is None:
            self._h = frozenset(self.t.items())
        return self._h

    def __eq__(self, o):
        return self.t == o.t

    def __hash__(self):
        return hash(self.key())

    def z3(self):
        if self._z is None:
            terms = []
            for m, c in sorted(self.t.items()):
                e = z3.Q(c.numerator, c.denominator)
                fs = []
                for v, k in m:
                    fs.extend([z3.Real(_names[v])] * k)
                if fs:
                    p = fs[0]
                    for f in fs[1:]:
                        p = p * f
                    e = p if c == 1 else e * p
                terms.append(e)
            self._z = z3.Sum(terms) if terms else z3.RealVal(0)
        return self._z

    def __repr__(self):
        return " + ".join("%s*%s" % (c, "*".join("%s^%d" % (_names[v], k) for v, k in m) or "1") for m, c in sorted(self.t.items())) or "0"


def _mmul(a, b):
    if not a:
        return b
    if not b:
        return a
    d = dict(a)
    for v, k in b:
        d[v] = d.get(v, 0) + k
    return tuple(sorted(d.items()))


P0 = Poly.const(0)
P1 = Poly.const(1)


class Rat:
    """num / prod(atoms^exp); atoms are Polys assumed nonzero"""
    __slots__ = ("n", "d")

    def __init__(self, n, d=None):
        self.n = n
        self.d = d or {}

    def dpoly(self):
        p = P1
        for a, k in self.d.items():
            for _ in range(k):
                p = p * a
        return p

    @staticmethod
    def _missing(L, d):
        p = P1
        for a, k in L.items():
            for _ in range(k - d.get(a, 0)):
                p = p * a
        return p

    def __add__(self, o):
        if not o.n.t:
            return self
        if not self.n.t:
            return o
        if self.d == o.d:
            return Rat(self.n + o.n, self.d)._norm()
        L = dict(self.d)
        for a, k in o.d.items():
            if L.get(a, 0) < k:
                L[a] = k
        return Rat(self.n * Rat._missing(L, self.d) + o.n * Rat._missing(L, o.d), L)._norm()

    def _norm(self):
        if not self.n.t:
            return Rat(P0)
        return self

    def __neg__(self):
        return Rat(-self.n, self.d)

    def __sub__(self, o):
        return self + (-o)

    def __mul__(self, o):
        if not self.n.t or not o.n.t:
            return Rat(P0)
        if not o.d:
            return Rat(self.n * o.n, self.d)
        if not self.d:
            return Rat(self.n * o.n, o.d)
        d = dict(self.d)
        for a, k in o.d.items():
            d[a] = d.get(a, 0) + k
        return Rat(self.n * o.n, d)

    def inv(self):
        """1/self ; caller records self.n != 0"""
        if self.n.is_const():
            return Rat(self.dpoly().scale(1 / self.n.cval()))
        # normalise atom sign/scale: make atom monic-ish (leading coeff 1) to share atoms
        lead = self.n.t[min(self.n.t)]
        atom = self.n.scale(1 / lead)
        return Rat(self.dpoly().scale(1 / lead), {atom: 1})

    def is_zero(self):
        return not self.n.t

    def is_const(self):
        return self.n.is_const() and not self.d

    def z3(self):
        if not self.d:
            return self.n.z3()
        return self.n.z3() / self.dpoly().z3()

    def cross_eq_poly(self, o):
        """polynomial that is zero iff self == o (given nonzero dens)"""
        return (self - o).n


# ---- exact division and cancelling normalisation
def _okey(m):
    # lex order on dense-ish representation: compare by sorted (var,exp) lists => use dict trick
    return tuple(sorted(((-v, k) for v, k in m), reverse=True))


def _lexkey(m, nv=None):
    d = [0] * len(_names)
    for v, k in m:
        d[v] = k
    return (sum(d), d)


def _mdiv(a, b):
    """a / b monomials or None"""
    if not b:
        return a
    d = dict(a)
    for v, k in b:
        e = d.get(v, 0) - k
        if e < 0:
            return None
        if e:
            d[v] = e
        else:
            del d[v]
    return tuple(sorted(d.items()))


def exact_div(p, a):
    if a.is_const():
        return p.scale(1 / a.cval())
    lt_a = max(a.t, key=_lexkey)
    c_a = a.t[lt_a]
    rest = [(m, c) for m, c in a.t.items() if m != lt_a]
    r = dict(p.t)
    q = {}
    import heapq
    # process r in decreasing order; use repeated max via sorted list rebuilt lazily
    while r:
        lt_r = max(r, key=_lexkey)
        m = _mdiv(lt_r, lt_a)
        if m is None:
            return None
        c = r.pop(lt_r) / c_a
        q[m] = c
        for ma, ca in rest:
            mm = _mmul(m, ma)
            v = r.get(mm, 0) - c * ca
            if v:
                r[mm] = v
            else:
                r.pop(mm, None)
    return Poly(q)


def _rat_norm(self):
    if not self.n.t:
        return Rat(P0)
    if not self.d:
        return self
    n = self.n
    d = dict(self.d)
    for a in list(d):
        while d.get(a, 0) > 0:
            q = exact_div(n, a)
            if q is None:
                break
            n = q
            d[a] -= 1
        if d.get(a) == 0:
            del d[a]
    return Rat(n, d)


Rat._norm = _rat_norm
_mul0 = Rat.__mul__
Rat.__mul__ = lambda s, o: _mul0(s, o)._norm()
