#!/bin/sh
# try_seed_wt.sh <patch.diff> <tier> <Cxx> [Cyy ...]: like try_seed.sh but in a private scratch worktree of /repo (VERIF_REPO), so several
# seeds can be tried at once and /repo is never touched; evidence/replays go to a scratch directory.
PATCH="$1"; TIER="$2"; shift 2
N=$(echo "$PATCH" | tr '/' '_')
WT=/tmp/vs/try$N
git -C /repo worktree remove --force "$WT" >/dev/null 2>&1
git -C /repo worktree add --detach "$WT" HEAD >/dev/null 2>&1 || { echo "worktree failed"; exit 9; }
git -C "$WT" apply "$PATCH" || { echo "apply failed"; exit 9; }
mkdir -p /tmp/vs/ev$N
cd /verif
for P in "$@"; do
  s=$(date +%s)
  out=$(VERIF_REPO="$WT" VERIF_EVIDENCE_DIR=/tmp/vs/ev$N VERIF_REPLAY_DIR=/tmp/vs/ev$N VERIF_JOBS=${VERIF_JOBS:-6} ./check $P --tier $TIER 2>&1); rc=$?
  nv=$(echo "$out" | grep -c "^VIOLATION")
  echo "$PATCH $P $TIER rc=$rc violations=$nv $(( $(date +%s)-s ))s :: $(echo "$out" | grep "^VIOLATION\|^INCONCLUSIVE\|^HARNESS" | head -3 | cut -c1-260 | tr '\n' '|')"
done
git -C /repo worktree remove --force "$WT" >/dev/null 2>&1
rm -rf /tmp/vs/ev$N
