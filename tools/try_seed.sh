#!/bin/sh
# try_seed.sh <patch.diff> <tier> <Cxx> [Cyy ...]: apply a seeded change to /repo, run the checks, undo it; prints one line per check
PATCH="$1"; TIER="$2"; shift 2
cd /verif
git -C /repo diff --quiet || { echo "/repo not clean"; exit 9; }
git -C /repo apply "$PATCH" || { echo "apply failed"; exit 9; }
find /repo -name __pycache__ -type d -exec rm -rf {} + 2>/dev/null
for P in "$@"; do
  s=$(date +%s)
  out=$(./check $P --tier $TIER 2>&1); rc=$?
  nv=$(echo "$out" | grep -c "^VIOLATION")
  echo "$P rc=$rc violations=$nv $(( $(date +%s)-s ))s :: $(echo "$out" | grep "^VIOLATION\|^INCONCLUSIVE\|^HARNESS" | head -3 | cut -c1-260 | tr '\n' '|')"
done
git -C /repo checkout -- . ; git -C /repo status --short | grep -v "^??" | head -3
find /repo -name __pycache__ -type d -exec rm -rf {} + 2>/dev/null
git -C /verif checkout -- evidence 2>/dev/null
