#!/bin/sh
# run_seeds.sh [tier] [jobs]: every seeded change against its property's check (plus the checks listed under "checks" in its meta.json),
# each in a private scratch worktree (VERIF_REPO); writes seeded/RESULTS_<tier>.txt (rc=1 with VIOLATION lines means caught)
TIER="${1:-quick}"; J="${2:-3}"
cd /verif
ls -d seeded/*/ | sed 's#/$##' | xargs -P "$J" -I{} sh -c 'd={}; p=$(python3 -c "import json,sys; m=json.load(open(\"/verif/$d/meta.json\")); print(\" \".join(m.get(\"checks\") or [\"$(basename $d | cut -d- -f1)\"]))"); VERIF_JOBS=3 /verif/tools/try_seed_wt.sh /verif/$d/patch.diff '"$TIER"' $p 2>&1 | cut -c1-420' > /tmp/seed_results_$TIER.txt 2>&1
sort /tmp/seed_results_$TIER.txt | sed 's#/verif/seeded/##; s#/patch.diff##' > /verif/seeded/RESULTS_$TIER.txt
grep -c "rc=1" /verif/seeded/RESULTS_$TIER.txt
