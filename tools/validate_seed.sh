#!/bin/sh
# validate_seed.sh <dir with patch.diff + demo.py> <out.json>
# confirms in a scratch worktree of /repo: demo passes without the patch, fails with it, full test-suite passes with it
D="$1"; OUT="$2"
N=$(echo "$D" | tr '/' '_')
WT=/tmp/vs/wt$N
export OMP_NUM_THREADS=1 OPENBLAS_NUM_THREADS=1 MKL_NUM_THREADS=1 NUMBA_NUM_THREADS=2
git -C /repo worktree remove --force "$WT" >/dev/null 2>&1
git -C /repo worktree add --detach "$WT" HEAD >/dev/null 2>&1 || { echo "worktree failed"; exit 3; }
cd "$WT"
PYTHONPATH="$WT" /venv/bin/python "$D/demo.py" >/tmp/vs/$N.demo0.log 2>&1; r0=$?
git apply "$D/patch.diff"; ra=$?
find . -name __pycache__ -type d -exec rm -rf {} + 2>/dev/null
PYTHONPATH="$WT" /venv/bin/python "$D/demo.py" >/tmp/vs/$N.demo1.log 2>&1; r1=$?
PYTHONPATH="$WT" /venv/bin/python -m pytest -q -p no:cacheprovider --timeout=900 tests --ignore=tests/learn >/tmp/vs/$N.tests.log 2>&1; rt=$?
summary=$(tail -1 /tmp/vs/$N.tests.log)
cd /
git -C /repo worktree remove --force "$WT" >/dev/null 2>&1
printf '{"dir": "%s", "apply_rc": %d, "demo_unpatched_rc": %d, "demo_patched_rc": %d, "tests_rc": %d, "tests_summary": "%s"}\n' "$D" $ra $r0 $r1 $rt "$summary" > "$OUT"
cat "$OUT"
