#!/bin/sh
# Build the offline overlay venv used by every check (idempotent).
set -e
HERE="$(cd "$(dirname "$0")" && pwd)"
V="$HERE/.venv"
if [ ! -x "$V/bin/python" ] || ! "$V/bin/python" -c "import z3, crosshair, jsonschema, numpy" >/dev/null 2>&1; then
  rm -rf "$V"
  /venv/bin/python -m venv "$V"
  SP="$V/lib/python3.12/site-packages"
  printf "import site; site.addsitedir('/venv/lib/python3.12/site-packages')\n" > "$SP/_overlay.pth"
  PIP_NO_INDEX=1 "$V/bin/pip" install -q --no-index --find-links /opt/veriftools/wheels z3-solver crosshair-tool jsonschema cvc5 || \
  PIP_NO_INDEX=1 "$V/bin/pip" install -q --no-index --find-links /opt/veriftools/wheels z3-solver crosshair-tool jsonschema
fi
"$V/bin/python" -c "import z3, crosshair, jsonschema, numpy, sigpy; print('setup ok: z3', z3.get_version_string(), 'sigpy from', sigpy.__file__)"
