#!/usr/bin/env python
"""developer helper: run the configurations of one property module whose id contains a substring, print per-config results.
usage: .venv/bin/python dev_run.py props.c19 quick [substr] [--float]"""
import os, sys, json, time
if "--float" not in sys.argv:
    os.environ.setdefault("NUMBA_DISABLE_JIT", "1")
sys.path.insert(0, os.path.dirname(os.path.abspath(__file__)))
from symsig import runner
import importlib
mod = importlib.import_module(sys.argv[1])
tier = sys.argv[2]
sub = sys.argv[3] if len(sys.argv) > 3 and not sys.argv[3].startswith("--") else ""
cfgs = [c for c in mod.configs(tier, 0) if sub in c["id"]]
budget = getattr(mod, "CONFIG_BUDGET_S", {"quick": 900, "thorough": 1800})[tier]
if "--float" in sys.argv:
    from symsig import oracle as O
    for c in cfgs:
        V = O.FloatValues({}, seed=1)
        obl = mod.HARNESSES[c["h"]](c, V)
        print(c["id"], V.ok, [(n, b.a) for n, b in obl])
    sys.exit(0)
import multiprocessing as mp
with mp.get_context("fork").Pool(min(16, max(1, len(cfgs)))) as pool:
    for r in pool.imap_unordered(runner.run_config, [(sys.argv[1], c, budget) for c in cfgs]):
        print("%-90s paths=%d obl=%d unsat=%d sat=%d unk=%d exc=%d solver=%.1fs wall=%.1fs" % (r["id"][:90], r["paths"], r["obligations"], r["unsat"], r["sat"], r["unknown"], r["exc_paths"], r["solver_s"], r["wall_s"]))
        for f in r["failures"][:3]:
            print("   FAIL", f["name"], json.dumps(f["env"])[:300], f["detail"][-600:])
        for i in r["inconclusive"][:3]:
            print("   INCONCLUSIVE", i["why"], i.get("tb", "")[-800:])
